(** * C16 — "Results do not depend on the unit or origin of the skill scale" (over R).

    Reading of the statements.  [fun r => set_mu_sigma r (a * r_mu r) (a * r_sigma r)] rescales a
    player by the factor [a]; [fun r => set_mu_sigma r (r_mu r + d) (r_sigma r)] shifts a player
    by [d].  The rescaled model has [beta] and [tau] multiplied by [a], the same [kappa] (a pure
    number), and a gamma callback [g'] that is the old callback read in the new unit (the
    default callback [sqrt(sigma^2)/c] is such a callback: [C16_gamma_default_scale_free]).
    Model [mu]/[sigma] are only the defaults of newly created ratings and do not enter
    [rate]/[predict_*]: the rescaled / shifted players carry them.

    Domain hypotheses (never [x / 0], never [sqrt] of a negative number): [beta > 0], every
    team non-empty, [sigma^2 + tau^2 > 0] for every player (so every team variance is
    positive); at the level of [compute]: every team variance [t_ss > 0].

    All theorems hold for every [Phi], [Phiinv]; no [GaussFacts] premise is needed ([Phi] is
    only ever applied to arguments that are invariant).

    The clause "to floating-point accuracy" is a statement about binary64 rounding and is
    not a theorem over R (where the equalities are exact); it is covered by the monitors
    (DESIGN.md §7, C16). *)
From Coq Require Import List Arith Reals Lra.
From OSV Require Import Num Order Core Predict RInst.
From OSV.Lemmas Require C16L.
From OSV Require GaussInst GaussFull.
Import ListNotations.
Open Scope R_scope.

(** ** Unit of the scale *)

(** the default gamma callback is scale free *)
Theorem C16_gamma_default_scale_free : forall (Phi Phiinv : R -> R) (a : R), 0 < a ->
  forall (c : R) (k : nat) (mu ss : R) (team : list (rating R)) (rank : nat), 0 < c -> 0 < ss ->
    gamma_default (H := RNum Phi Phiinv) (a * c) k (a * mu) (a * a * ss)
      (map (fun r => set_mu_sigma r (a * r_mu r) (a * r_sigma r)) team) rank
    = gamma_default (H := RNum Phi Phiinv) c k mu ss team rank.
Proof. exact C16L.gamma_default_scale_free. Qed.
Print Assumptions C16_gamma_default_scale_free.

(** [_compute] of Plackett-Luce and of both Bradley-Terry models on rescaled team ratings
    (team mu times [a], team sigma^2 times [a^2], players rescaled) returns the rescaled players *)
Theorem C16_scale_compute : forall (Phi Phiinv : R -> R) (a : R) (P : params R) (g' : gamma_fn R),
  0 < a -> 0 < p_beta P ->
  (forall c n mu ss team rank, 0 < c -> 0 < ss ->
     g' (a * c) n (a * mu) (a * a * ss) (map (fun r => set_mu_sigma r (a * r_mu r) (a * r_sigma r)) team) rank
     = p_gamma P c n mu ss team rank) ->
  forall (k : kind) (trs : list (trating R)),
  k = PL \/ k = BTF \/ k = BTP ->
  Forall (fun t => 0 < t_ss t) trs ->
  compute (H := RNum Phi Phiinv) k (mkParams (a * p_beta P) (p_kappa P) g')
    (map (fun t => mkT (a * t_mu t) (a * a * t_ss t)
                       (map (fun r => set_mu_sigma r (a * r_mu r) (a * r_sigma r)) (t_team t)) (t_rank t)) trs)
  = map (map (fun r => set_mu_sigma r (a * r_mu r) (a * r_sigma r))) (compute (H := RNum Phi Phiinv) k P trs).
Proof. exact C16L.scale_compute. Qed.
Print Assumptions C16_scale_compute.

Theorem C16_scale_compute_PL : forall (Phi Phiinv : R -> R) (a : R) (P : params R) (g' : gamma_fn R) (trs : list (trating R)),
  0 < a -> 0 < p_beta P ->
  (forall c n mu ss team rank, 0 < c -> 0 < ss ->
     g' (a * c) n (a * mu) (a * a * ss) (map (fun r => set_mu_sigma r (a * r_mu r) (a * r_sigma r)) team) rank
     = p_gamma P c n mu ss team rank) ->
  Forall (fun t => 0 < t_ss t) trs ->
  compute (H := RNum Phi Phiinv) PL (mkParams (a * p_beta P) (p_kappa P) g')
    (map (fun t => mkT (a * t_mu t) (a * a * t_ss t)
                       (map (fun r => set_mu_sigma r (a * r_mu r) (a * r_sigma r)) (t_team t)) (t_rank t)) trs)
  = map (map (fun r => set_mu_sigma r (a * r_mu r) (a * r_sigma r))) (compute (H := RNum Phi Phiinv) PL P trs).
Proof. intros; apply C16L.scale_compute; auto. Qed.
Print Assumptions C16_scale_compute_PL.

Theorem C16_scale_compute_BTF : forall (Phi Phiinv : R -> R) (a : R) (P : params R) (g' : gamma_fn R) (trs : list (trating R)),
  0 < a -> 0 < p_beta P ->
  (forall c n mu ss team rank, 0 < c -> 0 < ss ->
     g' (a * c) n (a * mu) (a * a * ss) (map (fun r => set_mu_sigma r (a * r_mu r) (a * r_sigma r)) team) rank
     = p_gamma P c n mu ss team rank) ->
  Forall (fun t => 0 < t_ss t) trs ->
  compute (H := RNum Phi Phiinv) BTF (mkParams (a * p_beta P) (p_kappa P) g')
    (map (fun t => mkT (a * t_mu t) (a * a * t_ss t)
                       (map (fun r => set_mu_sigma r (a * r_mu r) (a * r_sigma r)) (t_team t)) (t_rank t)) trs)
  = map (map (fun r => set_mu_sigma r (a * r_mu r) (a * r_sigma r))) (compute (H := RNum Phi Phiinv) BTF P trs).
Proof. intros; apply C16L.scale_compute; auto. Qed.
Print Assumptions C16_scale_compute_BTF.

Theorem C16_scale_compute_BTP : forall (Phi Phiinv : R -> R) (a : R) (P : params R) (g' : gamma_fn R) (trs : list (trating R)),
  0 < a -> 0 < p_beta P ->
  (forall c n mu ss team rank, 0 < c -> 0 < ss ->
     g' (a * c) n (a * mu) (a * a * ss) (map (fun r => set_mu_sigma r (a * r_mu r) (a * r_sigma r)) team) rank
     = p_gamma P c n mu ss team rank) ->
  Forall (fun t => 0 < t_ss t) trs ->
  compute (H := RNum Phi Phiinv) BTP (mkParams (a * p_beta P) (p_kappa P) g')
    (map (fun t => mkT (a * t_mu t) (a * a * t_ss t)
                       (map (fun r => set_mu_sigma r (a * r_mu r) (a * r_sigma r)) (t_team t)) (t_rank t)) trs)
  = map (map (fun r => set_mu_sigma r (a * r_mu r) (a * r_sigma r))) (compute (H := RNum Phi Phiinv) BTP P trs).
Proof. intros; apply C16L.scale_compute; auto. Qed.
Print Assumptions C16_scale_compute_BTP.

Example C16_scale_compute_ex : forall Phi Phiinv : R -> R,
  let N := RNum Phi Phiinv in
  let P := mkParams (25 / 6) (1 / 10000) gamma_default in
  let p1 := mkRating 25 (25 / 3) 0%Z NmNone in
  let p2 := mkRating 30 5 1%Z NmNone in
  let p3 := mkRating 20 4 2%Z (NmStr true 7%Z) in
  let trs := [mkT 55 (25 / 3 * (25 / 3) + 5 * 5) [p1; p2] 0; mkT 20 16 [p3] 1; mkT 20 16 [p3] 1] in
  compute PL (mkParams (2 * p_beta P) (p_kappa P) gamma_default)
    (map (fun t => mkT (2 * t_mu t) (2 * 2 * t_ss t)
                       (map (fun r => set_mu_sigma r (2 * r_mu r) (2 * r_sigma r)) (t_team t)) (t_rank t)) trs)
  = map (map (fun r => set_mu_sigma r (2 * r_mu r) (2 * r_sigma r))) (compute PL P trs).
Proof.
  intros. apply (C16_scale_compute_PL Phi Phiinv 2 P); [lra | cbn; lra | | repeat constructor; cbn; lra].
  apply C16_gamma_default_scale_free; lra.
Qed.

(** [rate] (tau inflation, sort by rank, update, unsort, optional sigma clamp) of the rescaled
    model on the rescaled game returns the rescaled result: every posterior mu and sigma is
    multiplied by [a] *)
Theorem C16_scale_rate : forall (Phi Phiinv : R -> R) (a : R) (P : params R) (g' : gamma_fn R),
  0 < a -> 0 < p_beta P ->
  (forall c n mu ss team rank, 0 < c -> 0 < ss ->
     g' (a * c) n (a * mu) (a * a * ss) (map (fun r => set_mu_sigma r (a * r_mu r) (a * r_sigma r)) team) rank
     = p_gamma P c n mu ss team rank) ->
  forall (k : kind) (tau : R) (limit_sigma : bool) (teams : list (list (rating R))) (keys : option (list key)),
  k = PL \/ k = BTF \/ k = BTP ->
  Forall (fun t => t <> [] /\ Forall (fun p => 0 < r_sigma p * r_sigma p + tau * tau) t) teams ->
  rate_core (H := RNum Phi Phiinv) k (mkParams (a * p_beta P) (p_kappa P) g') (a * tau) limit_sigma
    (map (map (fun r => set_mu_sigma r (a * r_mu r) (a * r_sigma r))) teams) keys
  = map (map (fun r => set_mu_sigma r (a * r_mu r) (a * r_sigma r)))
        (rate_core (H := RNum Phi Phiinv) k P tau limit_sigma teams keys).
Proof. exact C16L.scale_rate. Qed.
Print Assumptions C16_scale_rate.

Example C16_scale_rate_ex : forall Phi Phiinv : R -> R,
  let N := RNum Phi Phiinv in
  let P := mkParams (25 / 6) (1 / 10000) gamma_default in
  let teams := [[mkRating 25 (25 / 3) 0%Z NmNone; mkRating 30 5 1%Z NmNone]; [mkRating 20 4 2%Z NmNone];
                [mkRating 27 0 3%Z NmNone]] in
  rate_core BTP (mkParams (3 * p_beta P) (p_kappa P) gamma_default) (3 * (1 / 12)) true
    (map (map (fun r => set_mu_sigma r (3 * r_mu r) (3 * r_sigma r))) teams) (Some [(2, 0); (1, 0); (2, 0)]%Z)
  = map (map (fun r => set_mu_sigma r (3 * r_mu r) (3 * r_sigma r)))
        (rate_core BTP P (1 / 12) true teams (Some [(2, 0); (1, 0); (2, 0)]%Z)).
Proof.
  intros. apply (C16_scale_rate Phi Phiinv 3 P); [lra | cbn; lra | | auto | ].
  - apply C16_gamma_default_scale_free; lra.
  - repeat constructor; try discriminate; cbn; lra.
Qed.

(** all three predictions of the rescaled model on the rescaled game are unchanged
    (the same functions serve all five models) *)
Theorem C16_scale_predict : forall (Phi Phiinv : R -> R) (a beta : R), 0 < a -> 0 < beta ->
  forall teams : list (list (rating R)), Forall (fun t => t <> []) teams ->
  predict_win (H := RNum Phi Phiinv) (a * beta) (map (map (fun r => set_mu_sigma r (a * r_mu r) (a * r_sigma r))) teams)
    = predict_win (H := RNum Phi Phiinv) beta teams /\
  predict_draw (H := RNum Phi Phiinv) (a * beta) (map (map (fun r => set_mu_sigma r (a * r_mu r) (a * r_sigma r))) teams)
    = predict_draw (H := RNum Phi Phiinv) beta teams /\
  predict_rank_probs (H := RNum Phi Phiinv) (a * beta) (map (map (fun r => set_mu_sigma r (a * r_mu r) (a * r_sigma r))) teams)
    = predict_rank_probs (H := RNum Phi Phiinv) beta teams /\
  predict_rank (H := RNum Phi Phiinv) (a * beta) (map (map (fun r => set_mu_sigma r (a * r_mu r) (a * r_sigma r))) teams)
    = predict_rank (H := RNum Phi Phiinv) beta teams.
Proof. exact C16L.scale_predict. Qed.
Print Assumptions C16_scale_predict.

Example C16_scale_predict_ex : forall Phi Phiinv : R -> R,
  let teams := [[mkRating 25 (25 / 3) 0%Z NmNone; mkRating 30 5 1%Z NmNone]; [mkRating 20 4 2%Z NmNone]] in
  predict_draw (H := RNum Phi Phiinv) (7 * (25 / 6)) (map (map (fun r => set_mu_sigma r (7 * r_mu r) (7 * r_sigma r))) teams)
  = predict_draw (H := RNum Phi Phiinv) (25 / 6) teams.
Proof. intros. apply (C16_scale_predict Phi Phiinv 7 (25 / 6)); [lra | lra | repeat constructor; discriminate]. Qed.

(** ** Origin of the scale *)

(** the default gamma callback does not look at the location *)
Theorem C16_gamma_default_shift_free : forall (Phi Phiinv : R -> R) (d : R)
  (c : R) (k : nat) (mu ss : R) (team : list (rating R)) (rank : nat) (D : R),
    gamma_default (H := RNum Phi Phiinv) c k (mu + D) ss
      (map (fun r => set_mu_sigma r (r_mu r + d) (r_sigma r)) team) rank
    = gamma_default (H := RNum Phi Phiinv) c k mu ss team rank.
Proof. exact C16L.gamma_default_shift_free. Qed.
Print Assumptions C16_gamma_default_shift_free.

(** [_compute] of every model on team ratings whose team mu are all shifted by the same [D]
    (players shifted by [d]) returns the shifted players: mu + d, same sigma *)
Theorem C16_shift_compute : forall (Phi Phiinv : R -> R) (d D : R) (P : params R),
  (forall c n mu ss team rank D',
     p_gamma P c n (mu + D') ss (map (fun r => set_mu_sigma r (r_mu r + d) (r_sigma r)) team) rank
     = p_gamma P c n mu ss team rank) ->
  forall (k : kind) (trs : list (trating R)),
  compute (H := RNum Phi Phiinv) k P
    (map (fun t => mkT (t_mu t + D) (t_ss t)
                       (map (fun r => set_mu_sigma r (r_mu r + d) (r_sigma r)) (t_team t)) (t_rank t)) trs)
  = map (map (fun r => set_mu_sigma r (r_mu r + d) (r_sigma r))) (compute (H := RNum Phi Phiinv) k P trs).
Proof. exact C16L.shift_compute. Qed.
Print Assumptions C16_shift_compute.

Example C16_shift_compute_ex : forall Phi Phiinv : R -> R,
  let N := RNum Phi Phiinv in
  let P := mkParams (25 / 6) (1 / 10000) gamma_default in
  let p1 := mkRating 25 (25 / 3) 0%Z NmNone in
  let p3 := mkRating 20 4 2%Z (NmStr true 7%Z) in
  let trs := [mkT 25 (25 / 3 * (25 / 3)) [p1] 0; mkT 20 16 [p3] 1; mkT 20 16 [p3] 1] in
  compute PL P
    (map (fun t => mkT (t_mu t + 5) (t_ss t)
                       (map (fun r => set_mu_sigma r (r_mu r + 5) (r_sigma r)) (t_team t)) (t_rank t)) trs)
  = map (map (fun r => set_mu_sigma r (r_mu r + 5) (r_sigma r))) (compute PL P trs).
Proof. intros. apply (C16_shift_compute Phi Phiinv 5 5 P). intros. apply C16_gamma_default_shift_free. Qed.

(** [rate] under every model, all teams of the same size [m]: adding [d] to every mu adds
    [d] to every posterior mu and leaves every posterior sigma unchanged *)
Theorem C16_shift_rate : forall (Phi Phiinv : R -> R) (d : R) (m : nat) (P : params R),
  (forall c n mu ss team rank D',
     p_gamma P c n (mu + D') ss (map (fun r => set_mu_sigma r (r_mu r + d) (r_sigma r)) team) rank
     = p_gamma P c n mu ss team rank) ->
  forall (k : kind) (tau : R) (limit_sigma : bool) (teams : list (list (rating R))) (keys : option (list key)),
  Forall (fun t => length t = m) teams ->
  rate_core (H := RNum Phi Phiinv) k P tau limit_sigma
    (map (map (fun r => set_mu_sigma r (r_mu r + d) (r_sigma r))) teams) keys
  = map (map (fun r => set_mu_sigma r (r_mu r + d) (r_sigma r)))
        (rate_core (H := RNum Phi Phiinv) k P tau limit_sigma teams keys).
Proof. exact C16L.shift_rate. Qed.
Print Assumptions C16_shift_rate.

Example C16_shift_rate_ex : forall Phi Phiinv : R -> R,
  let N := RNum Phi Phiinv in
  let P := mkParams (25 / 6) (1 / 10000) gamma_default in
  let teams := [[mkRating 25 (25 / 3) 0%Z NmNone; mkRating 30 5 1%Z NmNone];
                [mkRating 20 4 2%Z NmNone; mkRating 27 1 3%Z NmNone]] in
  rate_core TMP P (1 / 12) false
    (map (map (fun r => set_mu_sigma r (r_mu r + 1000) (r_sigma r))) teams) (Some [(2, 0); (1, 0)]%Z)
  = map (map (fun r => set_mu_sigma r (r_mu r + 1000) (r_sigma r)))
        (rate_core TMP P (1 / 12) false teams (Some [(2, 0); (1, 0)]%Z)).
Proof.
  intros. apply (C16_shift_rate Phi Phiinv 1000 2 P).
  - intros. apply C16_gamma_default_shift_free.
  - repeat constructor.
Qed.

(** all three predictions are unchanged when every mu is shifted by [d] and all teams have
    the same size [m >= 1] *)
Theorem C16_shift_predict : forall (Phi Phiinv : R -> R) (d beta : R) (m : nat), (1 <= m)%nat ->
  forall teams : list (list (rating R)), Forall (fun t => length t = m) teams ->
  predict_win (H := RNum Phi Phiinv) beta (map (map (fun r => set_mu_sigma r (r_mu r + d) (r_sigma r))) teams)
    = predict_win (H := RNum Phi Phiinv) beta teams /\
  predict_draw (H := RNum Phi Phiinv) beta (map (map (fun r => set_mu_sigma r (r_mu r + d) (r_sigma r))) teams)
    = predict_draw (H := RNum Phi Phiinv) beta teams /\
  predict_rank_probs (H := RNum Phi Phiinv) beta (map (map (fun r => set_mu_sigma r (r_mu r + d) (r_sigma r))) teams)
    = predict_rank_probs (H := RNum Phi Phiinv) beta teams /\
  predict_rank (H := RNum Phi Phiinv) beta (map (map (fun r => set_mu_sigma r (r_mu r + d) (r_sigma r))) teams)
    = predict_rank (H := RNum Phi Phiinv) beta teams.
Proof. exact C16L.shift_predict. Qed.
Print Assumptions C16_shift_predict.

Example C16_shift_predict_ex : forall Phi Phiinv : R -> R,
  let teams := [[mkRating 25 (25 / 3) 0%Z NmNone]; [mkRating 20 4 2%Z NmNone]; [mkRating 20 4 2%Z NmNone]] in
  predict_win (H := RNum Phi Phiinv) (25 / 6) (map (map (fun r => set_mu_sigma r (r_mu r + -40) (r_sigma r))) teams)
  = predict_win (H := RNum Phi Phiinv) (25 / 6) teams.
Proof. intros. apply (C16_shift_predict Phi Phiinv (-40) (25 / 6) 1); [apply le_n | repeat constructor]. Qed.

(** ** Why Thurstone-Mosteller is excluded from the scaling clause *)

(** the draw-margin argument [kappa / c_iq] handed to [v], [w], [vt], [wt] is divided by [a]
    under rescaling (kappa is a pure number in the code; [dmu] is invariant) *)
Theorem C16_tm_threshold_scales : forall (Phi Phiinv : R -> R) (a : R) (P : params R) (g' : gamma_fn R)
  (ti tq : trating R),
  0 < a -> 0 < p_beta P -> 0 < t_ss ti -> 0 < t_ss tq ->
  p_kappa P / c_iq (H := RNum Phi Phiinv) (mkParams (a * p_beta P) (p_kappa P) g')
                (mkT (a * t_mu ti) (a * a * t_ss ti) (map (fun r => set_mu_sigma r (a * r_mu r) (a * r_sigma r)) (t_team ti)) (t_rank ti))
                (mkT (a * t_mu tq) (a * a * t_ss tq) (map (fun r => set_mu_sigma r (a * r_mu r) (a * r_sigma r)) (t_team tq)) (t_rank tq))
  = p_kappa P / c_iq (H := RNum Phi Phiinv) P ti tq / a.
Proof. exact C16L.tm_threshold_scales. Qed.
Print Assumptions C16_tm_threshold_scales.

Example C16_tm_threshold_scales_ex : forall Phi Phiinv : R -> R,
  let N := RNum Phi Phiinv in
  let P := mkParams (1 / 4) 1 gamma_default in
  let t1 := mkT 0 (1 / 16) [mkRating 0 (1 / 4) 0%Z NmNone] 0 in
  let t2 := mkT 0 (1 / 16) [mkRating 0 (1 / 4) 1%Z NmNone] 1 in
  1 / c_iq (mkParams (2 * (1 / 4)) 1 gamma_default)
        (mkT (2 * 0) (2 * 2 * (1 / 16)) (map (fun r => set_mu_sigma r (2 * r_mu r) (2 * r_sigma r)) (t_team t1)) 0)
        (mkT (2 * 0) (2 * 2 * (1 / 16)) (map (fun r => set_mu_sigma r (2 * r_mu r) (2 * r_sigma r)) (t_team t2)) 1)
  = 1 / c_iq P t1 t2 / 2.
Proof. intros. apply (C16_tm_threshold_scales Phi Phiinv 2 P gamma_default t1 t2); cbn; lra. Qed.

(** and the scaling law of [C16_scale_compute] is false for Thurstone-Mosteller (full pairing),
    for every [Phi] with the textbook properties of the normal distribution function.
    Witness: a = 2, beta = 1/4, kappa = 1, default gamma, two one-player teams with
    mu = 0, sigma = 1/4, first team wins: t = kappa/c is 2 in the small unit and 1 in the
    large one, and v(0,2) = phi(2)/Phi(-2) > 2 > phi(1)/Phi(-1) = v(0,1) by the two Mills-ratio
    bounds, so the winner's posterior mu is not multiplied by 2.  Uses [gf_mono], [gf_tail8],
    [gf_range], [gf_mills], [gf_mills_up].  (Non-vacuity: the premise is instantiated --
    [GaussFull.GaussFacts_inst : GaussFacts GaussInst.PhiK GaussInst.PhiinvK] is proved without
    hypothesis for the standard normal distribution function [GaussInst.PhiK] constructed in
    GaussInst.v (Gaussian integral in GaussIntegral.v); [C16_tm_scale_refuted_inst] at the end
    of the file is the refutation for that function, with no premise: nothing about the normal
    distribution is assumed any more; the only remaining link is that CPython's NormalDist
    computes this function.) *)
Theorem C16_tm_scale_refuted : forall (Phi Phiinv : R -> R), GaussFacts Phi Phiinv ->
  exists (a : R) (P : params R) (trs : list (trating R)),
    0 < a /\ 0 < p_beta P /\ 0 < p_kappa P <= 1 /\ Forall (fun t => 0 < t_ss t) trs /\
    (forall c n mu ss team rank, 0 < c -> 0 < ss ->
       gamma_default (H := RNum Phi Phiinv) (a * c) n (a * mu) (a * a * ss)
         (map (fun r => set_mu_sigma r (a * r_mu r) (a * r_sigma r)) team) rank
       = p_gamma P c n mu ss team rank) /\
    compute (H := RNum Phi Phiinv) TMF (mkParams (a * p_beta P) (p_kappa P) (gamma_default (H := RNum Phi Phiinv)))
      (map (fun t => mkT (a * t_mu t) (a * a * t_ss t)
                         (map (fun r => set_mu_sigma r (a * r_mu r) (a * r_sigma r)) (t_team t)) (t_rank t)) trs)
    <> map (map (fun r => set_mu_sigma r (a * r_mu r) (a * r_sigma r))) (compute (H := RNum Phi Phiinv) TMF P trs).
Proof. exact C16L.tm_scale_refuted. Qed.
Print Assumptions C16_tm_scale_refuted.

(** ** The [GaussFacts] premise instantiated.

    Each theorem above that takes [GaussFacts Phi Phiinv] as a premise is restated here for
    the concrete standard normal distribution function [GaussInst.PhiK] and its inverse
    [GaussInst.PhiinvK] (constructed in GaussInst.v), with no premise about the normal law:
    [GaussFull.GaussFacts_inst : GaussFacts GaussInst.PhiK GaussInst.PhiinvK] is proved
    outright (calculus facts in GaussCalc.v, the Gaussian integral in GaussIntegral.v). *)
Theorem C16_tm_scale_refuted_inst : exists (a : R) (P : params R) (trs : list (trating R)),
    0 < a /\ 0 < p_beta P /\ 0 < p_kappa P <= 1 /\ Forall (fun t => 0 < t_ss t) trs /\
    (forall c n mu ss team rank, 0 < c -> 0 < ss ->
       gamma_default (H := RNum GaussInst.PhiK GaussInst.PhiinvK) (a * c) n (a * mu) (a * a * ss)
         (map (fun r => set_mu_sigma r (a * r_mu r) (a * r_sigma r)) team) rank
       = p_gamma P c n mu ss team rank) /\
    compute (H := RNum GaussInst.PhiK GaussInst.PhiinvK) TMF (mkParams (a * p_beta P) (p_kappa P) (gamma_default (H := RNum GaussInst.PhiK GaussInst.PhiinvK)))
      (map (fun t => mkT (a * t_mu t) (a * a * t_ss t)
                         (map (fun r => set_mu_sigma r (a * r_mu r) (a * r_sigma r)) (t_team t)) (t_rank t)) trs)
    <> map (map (fun r => set_mu_sigma r (a * r_mu r) (a * r_sigma r))) (compute (H := RNum GaussInst.PhiK GaussInst.PhiinvK) TMF P trs).
Proof. exact (C16_tm_scale_refuted GaussInst.PhiK GaussInst.PhiinvK GaussFull.GaussFacts_inst). Qed.
Print Assumptions C16_tm_scale_refuted_inst.

From Flocq Require Core.Zaux Core.Raux Core.Generic_fmt Core.FLX IEEE754.BinarySingleNaN IEEE754.Binary IEEE754.Bits.
From OSV.Lemmas Require FloatScaleL.

(** ** Unit of the scale, WITH ROUNDING: a power-of-two factor is exact in floating point

    The theorems above are over the reals.  Here the same scale law is proved for a model of
    floating-point arithmetic in which every operation rounds: [FloatScaleL.FlxNum ex erfc icdf pw2
    : Num R] computes every [+ - * / sqrt], every int-to-float conversion and every constant with
    the rounding [FloatScaleL.rnd] = round to nearest, ties to even, to 53 significant bits with
    unbounded exponent range (Flocq's format FLX, radix 2, precision 53); comparisons, negation
    and absolute value are exact; [exp], [erfc], [inv_cdf] are ARBITRARY functions [ex], [erfc],
    [icdf] (nothing is assumed about them: they receive identical arguments in the two runs);
    [x ** 2] is a function [pw2] assumed homogeneous for the factor at hand (the correctly rounded
    square is: [C16_pow2_scale_flx53_square_ex]).  [C16_flx53_instance] spells the instance out.

    Result: if every mu, sigma, beta (and tau) is multiplied by 2^k (k any integer), all three
    predictions are bit-for-bit unchanged and the posterior mu, sigma of Plackett-Luce and both
    Bradley-Terry models are exactly 2^k times the original ones -- rounding cannot break the
    scale law for a power-of-two unit change.  The statements hold for ALL inputs (no domain
    hypotheses; outside the domain of the Python code, where it raises ZeroDivisionError /
    ValueError, Coq's totalised [x / 0 = 0] and [sqrt] of a negative number [= 0] scale
    consistently too -- the statements restricted to the domain are instances of these).

    Relation to the doubles the code computes: IEEE binary64 agrees with this arithmetic
    operation by operation as long as no result overflows or falls in the subnormal range
    ([C16_flx53_agrees_with_binary64_plus] etc.).  The gamma premise is stated for all arguments
    (the real-number theorems need it only for c > 0, sigma^2 > 0); the default callback
    satisfies it ([C16_gamma_default_pow2_scale_flx53]). *)

(** what the instance is *)
Theorem C16_flx53_instance : forall (ex erfc icdf pw2 : R -> R) (a b : R) (z : Z),
  FloatScaleL.rnd = Generic_fmt.round Zaux.radix2 (FLX.FLX_exp 53) (Generic_fmt.Znearest (fun x => negb (Z.even x))) /\
  fadd (Num := FloatScaleL.FlxNum ex erfc icdf pw2) a b = FloatScaleL.rnd (a + b) /\
  fsub (Num := FloatScaleL.FlxNum ex erfc icdf pw2) a b = FloatScaleL.rnd (a - b) /\
  fmul (Num := FloatScaleL.FlxNum ex erfc icdf pw2) a b = FloatScaleL.rnd (a * b) /\
  fdiv (Num := FloatScaleL.FlxNum ex erfc icdf pw2) a b = FloatScaleL.rnd (a / b) /\
  fsqrt (Num := FloatScaleL.FlxNum ex erfc icdf pw2) a = FloatScaleL.rnd (sqrt a) /\
  fneg (Num := FloatScaleL.FlxNum ex erfc icdf pw2) a = - a /\
  fabs (Num := FloatScaleL.FlxNum ex erfc icdf pw2) a = Rabs a /\
  fexp (Num := FloatScaleL.FlxNum ex erfc icdf pw2) a = ex a /\
  ferfc (Num := FloatScaleL.FlxNum ex erfc icdf pw2) a = erfc a /\
  ficdf (Num := FloatScaleL.FlxNum ex erfc icdf pw2) a = icdf a /\
  fpow2 (Num := FloatScaleL.FlxNum ex erfc icdf pw2) a = pw2 a /\
  fofZ (Num := FloatScaleL.FlxNum ex erfc icdf pw2) z = FloatScaleL.rnd (IZR z) /\
  ftau (Num := FloatScaleL.FlxNum ex erfc icdf pw2) = FloatScaleL.rnd (2 * PI) /\
  (fltb (Num := FloatScaleL.FlxNum ex erfc icdf pw2) a b = true <-> a < b) /\
  (fleb (Num := FloatScaleL.FlxNum ex erfc icdf pw2) a b = true <-> a <= b) /\
  (feqb (Num := FloatScaleL.FlxNum ex erfc icdf pw2) a b = true <-> a = b).
Proof. intros; repeat split; try reflexivity; try apply Rltb_true; try apply Rleb_true; apply Reqb_true. Qed.
Print Assumptions C16_flx53_instance.

(** the key fact: rounding commutes with multiplication by a power of two *)
Theorem C16_rnd_pow2_flx53 : forall (k : Z) (x : R),
  FloatScaleL.rnd (powerRZ 2 k * x) = powerRZ 2 k * FloatScaleL.rnd x.
Proof. exact FloatScaleL.rnd_powerRZ2. Qed.
Print Assumptions C16_rnd_pow2_flx53.

(** non-vacuity of the premise on [x ** 2] in the theorems below: the correctly rounded square
    satisfies it for every k *)
Example C16_pow2_scale_flx53_square_ex : forall (k : Z) (x : R),
  FloatScaleL.rnd (powerRZ 2 k * x * (powerRZ 2 k * x)) = powerRZ 2 k * powerRZ 2 k * FloatScaleL.rnd (x * x).
Proof. exact FloatScaleL.pw2_rnd_sq_powerRZ2. Qed.

(** [predict_win] of the model rescaled by 2^k on the game rescaled by 2^k is unchanged *)
Theorem C16_predict_win_pow2_scale_flx53 : forall (ex erfc icdf pw2 : R -> R) (k : Z),
  (forall x, pw2 (powerRZ 2 k * x) = powerRZ 2 k * powerRZ 2 k * pw2 x) ->
  forall (beta : R) (teams : list (list (rating R))),
  predict_win (H := FloatScaleL.FlxNum ex erfc icdf pw2) (powerRZ 2 k * beta)
    (map (map (fun r => set_mu_sigma r (powerRZ 2 k * r_mu r) (powerRZ 2 k * r_sigma r))) teams)
  = predict_win (H := FloatScaleL.FlxNum ex erfc icdf pw2) beta teams.
Proof. exact FloatScaleL.predict_win_pow2_scale_flx53. Qed.
Print Assumptions C16_predict_win_pow2_scale_flx53.

(** likewise [predict_draw] *)
Theorem C16_predict_draw_pow2_scale_flx53 : forall (ex erfc icdf pw2 : R -> R) (k : Z),
  (forall x, pw2 (powerRZ 2 k * x) = powerRZ 2 k * powerRZ 2 k * pw2 x) ->
  forall (beta : R) (teams : list (list (rating R))),
  predict_draw (H := FloatScaleL.FlxNum ex erfc icdf pw2) (powerRZ 2 k * beta)
    (map (map (fun r => set_mu_sigma r (powerRZ 2 k * r_mu r) (powerRZ 2 k * r_sigma r))) teams)
  = predict_draw (H := FloatScaleL.FlxNum ex erfc icdf pw2) beta teams.
Proof. exact FloatScaleL.predict_draw_pow2_scale_flx53. Qed.
Print Assumptions C16_predict_draw_pow2_scale_flx53.

(** likewise the probabilities of [predict_rank] and its whole result (ranks and probabilities) *)
Theorem C16_predict_rank_pow2_scale_flx53 : forall (ex erfc icdf pw2 : R -> R) (k : Z),
  (forall x, pw2 (powerRZ 2 k * x) = powerRZ 2 k * powerRZ 2 k * pw2 x) ->
  forall (beta : R) (teams : list (list (rating R))),
  predict_rank_probs (H := FloatScaleL.FlxNum ex erfc icdf pw2) (powerRZ 2 k * beta)
    (map (map (fun r => set_mu_sigma r (powerRZ 2 k * r_mu r) (powerRZ 2 k * r_sigma r))) teams)
  = predict_rank_probs (H := FloatScaleL.FlxNum ex erfc icdf pw2) beta teams /\
  predict_rank (H := FloatScaleL.FlxNum ex erfc icdf pw2) (powerRZ 2 k * beta)
    (map (map (fun r => set_mu_sigma r (powerRZ 2 k * r_mu r) (powerRZ 2 k * r_sigma r))) teams)
  = predict_rank (H := FloatScaleL.FlxNum ex erfc icdf pw2) beta teams.
Proof.
  intros; split; [apply FloatScaleL.predict_rank_probs_pow2_scale_flx53 | apply FloatScaleL.predict_rank_pow2_scale_flx53]; assumption.
Qed.
Print Assumptions C16_predict_rank_pow2_scale_flx53.

Example C16_predict_pow2_scale_flx53_ex : forall ex erfc icdf : R -> R,
  let N := FloatScaleL.FlxNum ex erfc icdf (fun x => FloatScaleL.rnd (x * x)) in
  let teams := [[mkRating 25 (25 / 3) 0%Z NmNone; mkRating 30 5 1%Z NmNone]; [mkRating 20 4 2%Z NmNone];
                [mkRating 27 0 3%Z NmNone]] in
  predict_draw (powerRZ 2 (-3) * (25 / 6))
    (map (map (fun r => set_mu_sigma r (powerRZ 2 (-3) * r_mu r) (powerRZ 2 (-3) * r_sigma r))) teams)
  = predict_draw (25 / 6) teams.
Proof.
  intros. apply (C16_predict_draw_pow2_scale_flx53 ex erfc icdf (fun x => FloatScaleL.rnd (x * x)) (-3)%Z).
  apply C16_pow2_scale_flx53_square_ex.
Qed.

(** the default gamma callback is scale free in rounded arithmetic (all arguments) *)
Theorem C16_gamma_default_pow2_scale_flx53 : forall (ex erfc icdf pw2 : R -> R) (k : Z),
  (forall x, pw2 (powerRZ 2 k * x) = powerRZ 2 k * powerRZ 2 k * pw2 x) ->
  forall (c : R) (n : nat) (mu ss : R) (team : list (rating R)) (rank : nat),
  gamma_default (H := FloatScaleL.FlxNum ex erfc icdf pw2) (powerRZ 2 k * c) n (powerRZ 2 k * mu)
    (powerRZ 2 k * powerRZ 2 k * ss)
    (map (fun r => set_mu_sigma r (powerRZ 2 k * r_mu r) (powerRZ 2 k * r_sigma r)) team) rank
  = gamma_default (H := FloatScaleL.FlxNum ex erfc icdf pw2) c n mu ss team rank.
Proof. exact FloatScaleL.gamma_default_pow2_scale_flx53. Qed.
Print Assumptions C16_gamma_default_pow2_scale_flx53.

(** [_compute] of Plackett-Luce and of both Bradley-Terry models on team ratings rescaled by 2^k
    returns exactly the rescaled players *)
Theorem C16_compute_pow2_scale_flx53 : forall (ex erfc icdf pw2 : R -> R) (k : Z),
  (forall x, pw2 (powerRZ 2 k * x) = powerRZ 2 k * powerRZ 2 k * pw2 x) ->
  forall (P : params R) (g' : gamma_fn R),
  (forall c n mu ss team rank,
     g' (powerRZ 2 k * c) n (powerRZ 2 k * mu) (powerRZ 2 k * powerRZ 2 k * ss)
        (map (fun r => set_mu_sigma r (powerRZ 2 k * r_mu r) (powerRZ 2 k * r_sigma r)) team) rank
     = p_gamma P c n mu ss team rank) ->
  forall (kd : kind) (trs : list (trating R)), kd = PL \/ kd = BTF \/ kd = BTP ->
  compute (H := FloatScaleL.FlxNum ex erfc icdf pw2) kd (mkParams (powerRZ 2 k * p_beta P) (p_kappa P) g')
    (map (fun t => mkT (powerRZ 2 k * t_mu t) (powerRZ 2 k * powerRZ 2 k * t_ss t)
                       (map (fun r => set_mu_sigma r (powerRZ 2 k * r_mu r) (powerRZ 2 k * r_sigma r)) (t_team t))
                       (t_rank t)) trs)
  = map (map (fun r => set_mu_sigma r (powerRZ 2 k * r_mu r) (powerRZ 2 k * r_sigma r)))
        (compute (H := FloatScaleL.FlxNum ex erfc icdf pw2) kd P trs).
Proof. exact FloatScaleL.compute_pow2_scale_flx53. Qed.
Print Assumptions C16_compute_pow2_scale_flx53.

(** [rate] (tau inflation, sort by rank, update, unsort, optional sigma clamp) of the model
    rescaled by 2^k on the game rescaled by 2^k returns exactly the rescaled result: every
    posterior mu and sigma is 2^k times the original one, with every operation rounded *)
Theorem C16_rate_pow2_scale_flx53 : forall (ex erfc icdf pw2 : R -> R) (k : Z),
  (forall x, pw2 (powerRZ 2 k * x) = powerRZ 2 k * powerRZ 2 k * pw2 x) ->
  forall (P : params R) (g' : gamma_fn R),
  (forall c n mu ss team rank,
     g' (powerRZ 2 k * c) n (powerRZ 2 k * mu) (powerRZ 2 k * powerRZ 2 k * ss)
        (map (fun r => set_mu_sigma r (powerRZ 2 k * r_mu r) (powerRZ 2 k * r_sigma r)) team) rank
     = p_gamma P c n mu ss team rank) ->
  forall (kd : kind) (tau : R) (limit_sigma : bool) (teams : list (list (rating R))) (keys : option (list key)),
  kd = PL \/ kd = BTF \/ kd = BTP ->
  rate_core (H := FloatScaleL.FlxNum ex erfc icdf pw2) kd (mkParams (powerRZ 2 k * p_beta P) (p_kappa P) g')
    (powerRZ 2 k * tau) limit_sigma
    (map (map (fun r => set_mu_sigma r (powerRZ 2 k * r_mu r) (powerRZ 2 k * r_sigma r))) teams) keys
  = map (map (fun r => set_mu_sigma r (powerRZ 2 k * r_mu r) (powerRZ 2 k * r_sigma r)))
        (rate_core (H := FloatScaleL.FlxNum ex erfc icdf pw2) kd P tau limit_sigma teams keys).
Proof. exact FloatScaleL.rate_pow2_scale_flx53. Qed.
Print Assumptions C16_rate_pow2_scale_flx53.

(** the three kinds separately *)
Theorem C16_rate_btf_pow2_scale_flx53 : forall (ex erfc icdf pw2 : R -> R) (k : Z),
  (forall x, pw2 (powerRZ 2 k * x) = powerRZ 2 k * powerRZ 2 k * pw2 x) ->
  forall (P : params R) (g' : gamma_fn R),
  (forall c n mu ss team rank,
     g' (powerRZ 2 k * c) n (powerRZ 2 k * mu) (powerRZ 2 k * powerRZ 2 k * ss)
        (map (fun r => set_mu_sigma r (powerRZ 2 k * r_mu r) (powerRZ 2 k * r_sigma r)) team) rank
     = p_gamma P c n mu ss team rank) ->
  forall (tau : R) (limit_sigma : bool) (teams : list (list (rating R))) (keys : option (list key)),
  rate_core (H := FloatScaleL.FlxNum ex erfc icdf pw2) BTF (mkParams (powerRZ 2 k * p_beta P) (p_kappa P) g')
    (powerRZ 2 k * tau) limit_sigma
    (map (map (fun r => set_mu_sigma r (powerRZ 2 k * r_mu r) (powerRZ 2 k * r_sigma r))) teams) keys
  = map (map (fun r => set_mu_sigma r (powerRZ 2 k * r_mu r) (powerRZ 2 k * r_sigma r)))
        (rate_core (H := FloatScaleL.FlxNum ex erfc icdf pw2) BTF P tau limit_sigma teams keys).
Proof. intros; apply FloatScaleL.rate_pow2_scale_flx53; auto. Qed.
Print Assumptions C16_rate_btf_pow2_scale_flx53.

Theorem C16_rate_btp_pow2_scale_flx53 : forall (ex erfc icdf pw2 : R -> R) (k : Z),
  (forall x, pw2 (powerRZ 2 k * x) = powerRZ 2 k * powerRZ 2 k * pw2 x) ->
  forall (P : params R) (g' : gamma_fn R),
  (forall c n mu ss team rank,
     g' (powerRZ 2 k * c) n (powerRZ 2 k * mu) (powerRZ 2 k * powerRZ 2 k * ss)
        (map (fun r => set_mu_sigma r (powerRZ 2 k * r_mu r) (powerRZ 2 k * r_sigma r)) team) rank
     = p_gamma P c n mu ss team rank) ->
  forall (tau : R) (limit_sigma : bool) (teams : list (list (rating R))) (keys : option (list key)),
  rate_core (H := FloatScaleL.FlxNum ex erfc icdf pw2) BTP (mkParams (powerRZ 2 k * p_beta P) (p_kappa P) g')
    (powerRZ 2 k * tau) limit_sigma
    (map (map (fun r => set_mu_sigma r (powerRZ 2 k * r_mu r) (powerRZ 2 k * r_sigma r))) teams) keys
  = map (map (fun r => set_mu_sigma r (powerRZ 2 k * r_mu r) (powerRZ 2 k * r_sigma r)))
        (rate_core (H := FloatScaleL.FlxNum ex erfc icdf pw2) BTP P tau limit_sigma teams keys).
Proof. intros; apply FloatScaleL.rate_pow2_scale_flx53; auto. Qed.
Print Assumptions C16_rate_btp_pow2_scale_flx53.

Theorem C16_rate_pl_pow2_scale_flx53 : forall (ex erfc icdf pw2 : R -> R) (k : Z),
  (forall x, pw2 (powerRZ 2 k * x) = powerRZ 2 k * powerRZ 2 k * pw2 x) ->
  forall (P : params R) (g' : gamma_fn R),
  (forall c n mu ss team rank,
     g' (powerRZ 2 k * c) n (powerRZ 2 k * mu) (powerRZ 2 k * powerRZ 2 k * ss)
        (map (fun r => set_mu_sigma r (powerRZ 2 k * r_mu r) (powerRZ 2 k * r_sigma r)) team) rank
     = p_gamma P c n mu ss team rank) ->
  forall (tau : R) (limit_sigma : bool) (teams : list (list (rating R))) (keys : option (list key)),
  rate_core (H := FloatScaleL.FlxNum ex erfc icdf pw2) PL (mkParams (powerRZ 2 k * p_beta P) (p_kappa P) g')
    (powerRZ 2 k * tau) limit_sigma
    (map (map (fun r => set_mu_sigma r (powerRZ 2 k * r_mu r) (powerRZ 2 k * r_sigma r))) teams) keys
  = map (map (fun r => set_mu_sigma r (powerRZ 2 k * r_mu r) (powerRZ 2 k * r_sigma r)))
        (rate_core (H := FloatScaleL.FlxNum ex erfc icdf pw2) PL P tau limit_sigma teams keys).
Proof. intros; apply FloatScaleL.rate_pow2_scale_flx53; auto. Qed.
Print Assumptions C16_rate_pl_pow2_scale_flx53.

(** non-vacuity: the correctly rounded square, the default gamma callback, a three-team game
    with a tie, unit change by 2^5 *)
Example C16_rate_pow2_scale_flx53_ex : forall ex erfc icdf : R -> R,
  let N := FloatScaleL.FlxNum ex erfc icdf (fun x => FloatScaleL.rnd (x * x)) in
  let P := mkParams (25 / 6) (1 / 10000) gamma_default in
  let teams := [[mkRating 25 (25 / 3) 0%Z NmNone; mkRating 30 5 1%Z NmNone]; [mkRating 20 4 2%Z NmNone];
                [mkRating 27 0 3%Z NmNone]] in
  rate_core BTP (mkParams (powerRZ 2 5 * p_beta P) (p_kappa P) gamma_default) (powerRZ 2 5 * (1 / 12)) true
    (map (map (fun r => set_mu_sigma r (powerRZ 2 5 * r_mu r) (powerRZ 2 5 * r_sigma r))) teams)
    (Some [(2, 0); (1, 0); (2, 0)]%Z)
  = map (map (fun r => set_mu_sigma r (powerRZ 2 5 * r_mu r) (powerRZ 2 5 * r_sigma r)))
        (rate_core BTP P (1 / 12) true teams (Some [(2, 0); (1, 0); (2, 0)]%Z)).
Proof.
  intros. apply (C16_rate_btp_pow2_scale_flx53 ex erfc icdf (fun x => FloatScaleL.rnd (x * x)) 5%Z).
  - apply C16_pow2_scale_flx53_square_ex.
  - apply C16_gamma_default_pow2_scale_flx53. apply C16_pow2_scale_flx53_square_ex.
Qed.

(** IEEE 754 binary64 agrees with the rounded arithmetic above, operation by operation, whenever
    the exact result is zero or not below 2^-1022 in magnitude (no subnormal result) and the
    rounded result is below 2^1024 (no overflow): the real value of the double returned is the
    [rnd] of the exact result *)
Theorem C16_flx53_agrees_with_binary64_plus : forall x y : Bits.binary64,
  Binary.is_finite 53 1024 x = true -> Binary.is_finite 53 1024 y = true ->
  (Binary.B2R 53 1024 x + Binary.B2R 53 1024 y = 0 \/
   Raux.bpow Zaux.radix2 (-1022) <= Rabs (Binary.B2R 53 1024 x + Binary.B2R 53 1024 y)) ->
  Rabs (FloatScaleL.rnd (Binary.B2R 53 1024 x + Binary.B2R 53 1024 y)) < Raux.bpow Zaux.radix2 1024 ->
  Binary.B2R 53 1024 (Bits.b64_plus BinarySingleNaN.mode_NE x y)
    = FloatScaleL.rnd (Binary.B2R 53 1024 x + Binary.B2R 53 1024 y)
  /\ Binary.is_finite 53 1024 (Bits.b64_plus BinarySingleNaN.mode_NE x y) = true.
Proof. exact FloatScaleL.b64_plus_flx. Qed.
Print Assumptions C16_flx53_agrees_with_binary64_plus.

Theorem C16_flx53_agrees_with_binary64_minus : forall x y : Bits.binary64,
  Binary.is_finite 53 1024 x = true -> Binary.is_finite 53 1024 y = true ->
  (Binary.B2R 53 1024 x - Binary.B2R 53 1024 y = 0 \/
   Raux.bpow Zaux.radix2 (-1022) <= Rabs (Binary.B2R 53 1024 x - Binary.B2R 53 1024 y)) ->
  Rabs (FloatScaleL.rnd (Binary.B2R 53 1024 x - Binary.B2R 53 1024 y)) < Raux.bpow Zaux.radix2 1024 ->
  Binary.B2R 53 1024 (Bits.b64_minus BinarySingleNaN.mode_NE x y)
    = FloatScaleL.rnd (Binary.B2R 53 1024 x - Binary.B2R 53 1024 y)
  /\ Binary.is_finite 53 1024 (Bits.b64_minus BinarySingleNaN.mode_NE x y) = true.
Proof. exact FloatScaleL.b64_minus_flx. Qed.
Print Assumptions C16_flx53_agrees_with_binary64_minus.

Theorem C16_flx53_agrees_with_binary64_mult : forall x y : Bits.binary64,
  Binary.is_finite 53 1024 x = true -> Binary.is_finite 53 1024 y = true ->
  (Binary.B2R 53 1024 x * Binary.B2R 53 1024 y = 0 \/
   Raux.bpow Zaux.radix2 (-1022) <= Rabs (Binary.B2R 53 1024 x * Binary.B2R 53 1024 y)) ->
  Rabs (FloatScaleL.rnd (Binary.B2R 53 1024 x * Binary.B2R 53 1024 y)) < Raux.bpow Zaux.radix2 1024 ->
  Binary.B2R 53 1024 (Bits.b64_mult BinarySingleNaN.mode_NE x y)
    = FloatScaleL.rnd (Binary.B2R 53 1024 x * Binary.B2R 53 1024 y)
  /\ Binary.is_finite 53 1024 (Bits.b64_mult BinarySingleNaN.mode_NE x y) = true.
Proof. exact FloatScaleL.b64_mult_flx. Qed.
Print Assumptions C16_flx53_agrees_with_binary64_mult.

Theorem C16_flx53_agrees_with_binary64_div : forall x y : Bits.binary64,
  Binary.is_finite 53 1024 x = true -> Binary.B2R 53 1024 y <> 0 ->
  (Binary.B2R 53 1024 x / Binary.B2R 53 1024 y = 0 \/
   Raux.bpow Zaux.radix2 (-1022) <= Rabs (Binary.B2R 53 1024 x / Binary.B2R 53 1024 y)) ->
  Rabs (FloatScaleL.rnd (Binary.B2R 53 1024 x / Binary.B2R 53 1024 y)) < Raux.bpow Zaux.radix2 1024 ->
  Binary.B2R 53 1024 (Bits.b64_div BinarySingleNaN.mode_NE x y)
    = FloatScaleL.rnd (Binary.B2R 53 1024 x / Binary.B2R 53 1024 y)
  /\ Binary.is_finite 53 1024 (Bits.b64_div BinarySingleNaN.mode_NE x y) = true.
Proof. exact FloatScaleL.b64_div_flx. Qed.
Print Assumptions C16_flx53_agrees_with_binary64_div.

Theorem C16_flx53_agrees_with_binary64_sqrt : forall x : Bits.binary64,
  (sqrt (Binary.B2R 53 1024 x) = 0 \/
   Raux.bpow Zaux.radix2 (-1022) <= Rabs (sqrt (Binary.B2R 53 1024 x))) ->
  Binary.B2R 53 1024 (Bits.b64_sqrt BinarySingleNaN.mode_NE x) = FloatScaleL.rnd (sqrt (Binary.B2R 53 1024 x)).
Proof. exact FloatScaleL.b64_sqrt_flx. Qed.
Print Assumptions C16_flx53_agrees_with_binary64_sqrt.

(** non-vacuity of the four hypotheses of the first one: the doubles 1.0 and 0.5 *)
Example C16_flx53_agrees_with_binary64_ex :
  Binary.is_finite 53 1024 (Bits.b64_of_bits 4607182418800017408) = true /\
  Binary.is_finite 53 1024 (Bits.b64_of_bits 4602678819172646912) = true /\
  (Binary.B2R 53 1024 (Bits.b64_of_bits 4607182418800017408) + Binary.B2R 53 1024 (Bits.b64_of_bits 4602678819172646912) = 0 \/
   Raux.bpow Zaux.radix2 (-1022)
   <= Rabs (Binary.B2R 53 1024 (Bits.b64_of_bits 4607182418800017408) + Binary.B2R 53 1024 (Bits.b64_of_bits 4602678819172646912))) /\
  Rabs (FloatScaleL.rnd (Binary.B2R 53 1024 (Bits.b64_of_bits 4607182418800017408)
                         + Binary.B2R 53 1024 (Bits.b64_of_bits 4602678819172646912))) < Raux.bpow Zaux.radix2 1024.
Proof. exact FloatScaleL.b64_plus_flx_ex_hyps. Qed.

(** * C16 — "Results do not depend on the unit or origin of the skill scale" (over R).

    Reading of the statements.  [fun r => set_mu_sigma r (a * r_mu r) (a * r_sigma r)] rescales a
    player by the factor [a]; [fun r => set_mu_sigma r (r_mu r + d) (r_sigma r)] shifts a player
    by [d].  The rescaled model has [beta] and [tau] multiplied by [a], the same [kappa] (a pure
    number), and a gamma callback [g'] that is the old callback read in the new unit (the
    default callback [sqrt(sigma^2)/c] is such a callback: [C16_gamma_default_scale_free]).
    Model [mu]/[sigma] are only the defaults of newly created ratings and do not enter
    [rate]/[predict_*]: the rescaled / shifted players carry them.

    Domain hypotheses (never [x / 0], never [sqrt] of a negative number): [beta > 0], every
    team non-empty, [sigma^2 + tau^2 > 0] for every player (so every team variance is
    positive); at the level of [compute]: every team variance [t_ss > 0].

    All theorems hold for every [Phi], [Phiinv]; no [GaussFacts] premise is needed ([Phi] is
    only ever applied to arguments that are invariant).

    The clause "to floating-point accuracy" is a statement about binary64 rounding and is
    not a theorem over R (where the equalities are exact); it is covered by the monitors
    (DESIGN.md §7, C16). *)
From Coq Require Import List Arith Reals Lra.
From OSV Require Import Num Order Core Predict RInst.
From OSV.Lemmas Require C16L.
From OSV Require GaussInst GaussFull.
Import ListNotations.
Open Scope R_scope.

(** ** Unit of the scale *)

(** the default gamma callback is scale free *)
Theorem C16_gamma_default_scale_free : forall (Phi Phiinv : R -> R) (a : R), 0 < a ->
  forall (c : R) (k : nat) (mu ss : R) (team : list (rating R)) (rank : nat), 0 < c -> 0 < ss ->
    gamma_default (H := RNum Phi Phiinv) (a * c) k (a * mu) (a * a * ss)
      (map (fun r => set_mu_sigma r (a * r_mu r) (a * r_sigma r)) team) rank
    = gamma_default (H := RNum Phi Phiinv) c k mu ss team rank.
Proof. exact C16L.gamma_default_scale_free. Qed.
Print Assumptions C16_gamma_default_scale_free.

(** [_compute] of Plackett-Luce and of both Bradley-Terry models on rescaled team ratings
    (team mu times [a], team sigma^2 times [a^2], players rescaled) returns the rescaled players *)
Theorem C16_scale_compute : forall (Phi Phiinv : R -> R) (a : R) (P : params R) (g' : gamma_fn R),
  0 < a -> 0 < p_beta P ->
  (forall c n mu ss team rank, 0 < c -> 0 < ss ->
     g' (a * c) n (a * mu) (a * a * ss) (map (fun r => set_mu_sigma r (a * r_mu r) (a * r_sigma r)) team) rank
     = p_gamma P c n mu ss team rank) ->
  forall (k : kind) (trs : list (trating R)),
  k = PL \/ k = BTF \/ k = BTP ->
  Forall (fun t => 0 < t_ss t) trs ->
  compute (H := RNum Phi Phiinv) k (mkParams (a * p_beta P) (p_kappa P) g')
    (map (fun t => mkT (a * t_mu t) (a * a * t_ss t)
                       (map (fun r => set_mu_sigma r (a * r_mu r) (a * r_sigma r)) (t_team t)) (t_rank t)) trs)
  = map (map (fun r => set_mu_sigma r (a * r_mu r) (a * r_sigma r))) (compute (H := RNum Phi Phiinv) k P trs).
Proof. exact C16L.scale_compute. Qed.
Print Assumptions C16_scale_compute.

Theorem C16_scale_compute_PL : forall (Phi Phiinv : R -> R) (a : R) (P : params R) (g' : gamma_fn R) (trs : list (trating R)),
  0 < a -> 0 < p_beta P ->
  (forall c n mu ss team rank, 0 < c -> 0 < ss ->
     g' (a * c) n (a * mu) (a * a * ss) (map (fun r => set_mu_sigma r (a * r_mu r) (a * r_sigma r)) team) rank
     = p_gamma P c n mu ss team rank) ->
  Forall (fun t => 0 < t_ss t) trs ->
  compute (H := RNum Phi Phiinv) PL (mkParams (a * p_beta P) (p_kappa P) g')
    (map (fun t => mkT (a * t_mu t) (a * a * t_ss t)
                       (map (fun r => set_mu_sigma r (a * r_mu r) (a * r_sigma r)) (t_team t)) (t_rank t)) trs)
  = map (map (fun r => set_mu_sigma r (a * r_mu r) (a * r_sigma r))) (compute (H := RNum Phi Phiinv) PL P trs).
Proof. intros; apply C16L.scale_compute; auto. Qed.
Print Assumptions C16_scale_compute_PL.

Theorem C16_scale_compute_BTF : forall (Phi Phiinv : R -> R) (a : R) (P : params R) (g' : gamma_fn R) (trs : list (trating R)),
  0 < a -> 0 < p_beta P ->
  (forall c n mu ss team rank, 0 < c -> 0 < ss ->
     g' (a * c) n (a * mu) (a * a * ss) (map (fun r => set_mu_sigma r (a * r_mu r) (a * r_sigma r)) team) rank
     = p_gamma P c n mu ss team rank) ->
  Forall (fun t => 0 < t_ss t) trs ->
  compute (H := RNum Phi Phiinv) BTF (mkParams (a * p_beta P) (p_kappa P) g')
    (map (fun t => mkT (a * t_mu t) (a * a * t_ss t)
                       (map (fun r => set_mu_sigma r (a * r_mu r) (a * r_sigma r)) (t_team t)) (t_rank t)) trs)
  = map (map (fun r => set_mu_sigma r (a * r_mu r) (a * r_sigma r))) (compute (H := RNum Phi Phiinv) BTF P trs).
Proof. intros; apply C16L.scale_compute; auto. Qed.
Print Assumptions C16_scale_compute_BTF.

Theorem C16_scale_compute_BTP : forall (Phi Phiinv : R -> R) (a : R) (P : params R) (g' : gamma_fn R) (trs : list (trating R)),
  0 < a -> 0 < p_beta P ->
  (forall c n mu ss team rank, 0 < c -> 0 < ss ->
     g' (a * c) n (a * mu) (a * a * ss) (map (fun r => set_mu_sigma r (a * r_mu r) (a * r_sigma r)) team) rank
     = p_gamma P c n mu ss team rank) ->
  Forall (fun t => 0 < t_ss t) trs ->
  compute (H := RNum Phi Phiinv) BTP (mkParams (a * p_beta P) (p_kappa P) g')
    (map (fun t => mkT (a * t_mu t) (a * a * t_ss t)
                       (map (fun r => set_mu_sigma r (a * r_mu r) (a * r_sigma r)) (t_team t)) (t_rank t)) trs)
  = map (map (fun r => set_mu_sigma r (a * r_mu r) (a * r_sigma r))) (compute (H := RNum Phi Phiinv) BTP P trs).
Proof. intros; apply C16L.scale_compute; auto. Qed.
Print Assumptions C16_scale_compute_BTP.

Example C16_scale_compute_ex : forall Phi Phiinv : R -> R,
  let N := RNum Phi Phiinv in
  let P := mkParams (25 / 6) (1 / 10000) gamma_default in
  let p1 := mkRating 25 (25 / 3) 0%Z NmNone in
  let p2 := mkRating 30 5 1%Z NmNone in
  let p3 := mkRating 20 4 2%Z (NmStr true 7%Z) in
  let trs := [mkT 55 (25 / 3 * (25 / 3) + 5 * 5) [p1; p2] 0; mkT 20 16 [p3] 1; mkT 20 16 [p3] 1] in
  compute PL (mkParams (2 * p_beta P) (p_kappa P) gamma_default)
    (map (fun t => mkT (2 * t_mu t) (2 * 2 * t_ss t)
                       (map (fun r => set_mu_sigma r (2 * r_mu r) (2 * r_sigma r)) (t_team t)) (t_rank t)) trs)
  = map (map (fun r => set_mu_sigma r (2 * r_mu r) (2 * r_sigma r))) (compute PL P trs).
Proof.
  intros. apply (C16_scale_compute_PL Phi Phiinv 2 P); [lra | cbn; lra | | repeat constructor; cbn; lra].
  apply C16_gamma_default_scale_free; lra.
Qed.

(** [rate] (tau inflation, sort by rank, update, unsort, optional sigma clamp) of the rescaled
    model on the rescaled game returns the rescaled result: every posterior mu and sigma is
    multiplied by [a] *)
Theorem C16_scale_rate : forall (Phi Phiinv : R -> R) (a : R) (P : params R) (g' : gamma_fn R),
  0 < a -> 0 < p_beta P ->
  (forall c n mu ss team rank, 0 < c -> 0 < ss ->
     g' (a * c) n (a * mu) (a * a * ss) (map (fun r => set_mu_sigma r (a * r_mu r) (a * r_sigma r)) team) rank
     = p_gamma P c n mu ss team rank) ->
  forall (k : kind) (tau : R) (limit_sigma : bool) (teams : list (list (rating R))) (keys : option (list key)),
  k = PL \/ k = BTF \/ k = BTP ->
  Forall (fun t => t <> [] /\ Forall (fun p => 0 < r_sigma p * r_sigma p + tau * tau) t) teams ->
  rate_core (H := RNum Phi Phiinv) k (mkParams (a * p_beta P) (p_kappa P) g') (a * tau) limit_sigma
    (map (map (fun r => set_mu_sigma r (a * r_mu r) (a * r_sigma r))) teams) keys
  = map (map (fun r => set_mu_sigma r (a * r_mu r) (a * r_sigma r)))
        (rate_core (H := RNum Phi Phiinv) k P tau limit_sigma teams keys).
Proof. exact C16L.scale_rate. Qed.
Print Assumptions C16_scale_rate.

Example C16_scale_rate_ex : forall Phi Phiinv : R -> R,
  let N := RNum Phi Phiinv in
  let P := mkParams (25 / 6) (1 / 10000) gamma_default in
  let teams := [[mkRating 25 (25 / 3) 0%Z NmNone; mkRating 30 5 1%Z NmNone]; [mkRating 20 4 2%Z NmNone];
                [mkRating 27 0 3%Z NmNone]] in
  rate_core BTP (mkParams (3 * p_beta P) (p_kappa P) gamma_default) (3 * (1 / 12)) true
    (map (map (fun r => set_mu_sigma r (3 * r_mu r) (3 * r_sigma r))) teams) (Some [(2, 0); (1, 0); (2, 0)]%Z)
  = map (map (fun r => set_mu_sigma r (3 * r_mu r) (3 * r_sigma r)))
        (rate_core BTP P (1 / 12) true teams (Some [(2, 0); (1, 0); (2, 0)]%Z)).
Proof.
  intros. apply (C16_scale_rate Phi Phiinv 3 P); [lra | cbn; lra | | auto | ].
  - apply C16_gamma_default_scale_free; lra.
  - repeat constructor; try discriminate; cbn; lra.
Qed.

(** all three predictions of the rescaled model on the rescaled game are unchanged
    (the same functions serve all five models) *)
Theorem C16_scale_predict : forall (Phi Phiinv : R -> R) (a beta : R), 0 < a -> 0 < beta ->
  forall teams : list (list (rating R)), Forall (fun t => t <> []) teams ->
  predict_win (H := RNum Phi Phiinv) (a * beta) (map (map (fun r => set_mu_sigma r (a * r_mu r) (a * r_sigma r))) teams)
    = predict_win (H := RNum Phi Phiinv) beta teams /\
  predict_draw (H := RNum Phi Phiinv) (a * beta) (map (map (fun r => set_mu_sigma r (a * r_mu r) (a * r_sigma r))) teams)
    = predict_draw (H := RNum Phi Phiinv) beta teams /\
  predict_rank_probs (H := RNum Phi Phiinv) (a * beta) (map (map (fun r => set_mu_sigma r (a * r_mu r) (a * r_sigma r))) teams)
    = predict_rank_probs (H := RNum Phi Phiinv) beta teams /\
  predict_rank (H := RNum Phi Phiinv) (a * beta) (map (map (fun r => set_mu_sigma r (a * r_mu r) (a * r_sigma r))) teams)
    = predict_rank (H := RNum Phi Phiinv) beta teams.
Proof. exact C16L.scale_predict. Qed.
Print Assumptions C16_scale_predict.

Example C16_scale_predict_ex : forall Phi Phiinv : R -> R,
  let teams := [[mkRating 25 (25 / 3) 0%Z NmNone; mkRating 30 5 1%Z NmNone]; [mkRating 20 4 2%Z NmNone]] in
  predict_draw (H := RNum Phi Phiinv) (7 * (25 / 6)) (map (map (fun r => set_mu_sigma r (7 * r_mu r) (7 * r_sigma r))) teams)
  = predict_draw (H := RNum Phi Phiinv) (25 / 6) teams.
Proof. intros. apply (C16_scale_predict Phi Phiinv 7 (25 / 6)); [lra | lra | repeat constructor; discriminate]. Qed.

(** ** Origin of the scale *)

(** the default gamma callback does not look at the location *)
Theorem C16_gamma_default_shift_free : forall (Phi Phiinv : R -> R) (d : R)
  (c : R) (k : nat) (mu ss : R) (team : list (rating R)) (rank : nat) (D : R),
    gamma_default (H := RNum Phi Phiinv) c k (mu + D) ss
      (map (fun r => set_mu_sigma r (r_mu r + d) (r_sigma r)) team) rank
    = gamma_default (H := RNum Phi Phiinv) c k mu ss team rank.
Proof. exact C16L.gamma_default_shift_free. Qed.
Print Assumptions C16_gamma_default_shift_free.

(** [_compute] of every model on team ratings whose team mu are all shifted by the same [D]
    (players shifted by [d]) returns the shifted players: mu + d, same sigma *)
Theorem C16_shift_compute : forall (Phi Phiinv : R -> R) (d D : R) (P : params R),
  (forall c n mu ss team rank D',
     p_gamma P c n (mu + D') ss (map (fun r => set_mu_sigma r (r_mu r + d) (r_sigma r)) team) rank
     = p_gamma P c n mu ss team rank) ->
  forall (k : kind) (trs : list (trating R)),
  compute (H := RNum Phi Phiinv) k P
    (map (fun t => mkT (t_mu t + D) (t_ss t)
                       (map (fun r => set_mu_sigma r (r_mu r + d) (r_sigma r)) (t_team t)) (t_rank t)) trs)
  = map (map (fun r => set_mu_sigma r (r_mu r + d) (r_sigma r))) (compute (H := RNum Phi Phiinv) k P trs).
Proof. exact C16L.shift_compute. Qed.
Print Assumptions C16_shift_compute.

Example C16_shift_compute_ex : forall Phi Phiinv : R -> R,
  let N := RNum Phi Phiinv in
  let P := mkParams (25 / 6) (1 / 10000) gamma_default in
  let p1 := mkRating 25 (25 / 3) 0%Z NmNone in
  let p3 := mkRating 20 4 2%Z (NmStr true 7%Z) in
  let trs := [mkT 25 (25 / 3 * (25 / 3)) [p1] 0; mkT 20 16 [p3] 1; mkT 20 16 [p3] 1] in
  compute PL P
    (map (fun t => mkT (t_mu t + 5) (t_ss t)
                       (map (fun r => set_mu_sigma r (r_mu r + 5) (r_sigma r)) (t_team t)) (t_rank t)) trs)
  = map (map (fun r => set_mu_sigma r (r_mu r + 5) (r_sigma r))) (compute PL P trs).
Proof. intros. apply (C16_shift_compute Phi Phiinv 5 5 P). intros. apply C16_gamma_default_shift_free. Qed.

(** [rate] under every model, all teams of the same size [m]: adding [d] to every mu adds
    [d] to every posterior mu and leaves every posterior sigma unchanged *)
Theorem C16_shift_rate : forall (Phi Phiinv : R -> R) (d : R) (m : nat) (P : params R),
  (forall c n mu ss team rank D',
     p_gamma P c n (mu + D') ss (map (fun r => set_mu_sigma r (r_mu r + d) (r_sigma r)) team) rank
     = p_gamma P c n mu ss team rank) ->
  forall (k : kind) (tau : R) (limit_sigma : bool) (teams : list (list (rating R))) (keys : option (list key)),
  Forall (fun t => length t = m) teams ->
  rate_core (H := RNum Phi Phiinv) k P tau limit_sigma
    (map (map (fun r => set_mu_sigma r (r_mu r + d) (r_sigma r))) teams) keys
  = map (map (fun r => set_mu_sigma r (r_mu r + d) (r_sigma r)))
        (rate_core (H := RNum Phi Phiinv) k P tau limit_sigma teams keys).
Proof. exact C16L.shift_rate. Qed.
Print Assumptions C16_shift_rate.

Example C16_shift_rate_ex : forall Phi Phiinv : R -> R,
  let N := RNum Phi Phiinv in
  let P := mkParams (25 / 6) (1 / 10000) gamma_default in
  let teams := [[mkRating 25 (25 / 3) 0%Z NmNone; mkRating 30 5 1%Z NmNone];
                [mkRating 20 4 2%Z NmNone; mkRating 27 1 3%Z NmNone]] in
  rate_core TMP P (1 / 12) false
    (map (map (fun r => set_mu_sigma r (r_mu r + 1000) (r_sigma r))) teams) (Some [(2, 0); (1, 0)]%Z)
  = map (map (fun r => set_mu_sigma r (r_mu r + 1000) (r_sigma r)))
        (rate_core TMP P (1 / 12) false teams (Some [(2, 0); (1, 0)]%Z)).
Proof.
  intros. apply (C16_shift_rate Phi Phiinv 1000 2 P).
  - intros. apply C16_gamma_default_shift_free.
  - repeat constructor.
Qed.

(** all three predictions are unchanged when every mu is shifted by [d] and all teams have
    the same size [m >= 1] *)
Theorem C16_shift_predict : forall (Phi Phiinv : R -> R) (d beta : R) (m : nat), (1 <= m)%nat ->
  forall teams : list (list (rating R)), Forall (fun t => length t = m) teams ->
  predict_win (H := RNum Phi Phiinv) beta (map (map (fun r => set_mu_sigma r (r_mu r + d) (r_sigma r))) teams)
    = predict_win (H := RNum Phi Phiinv) beta teams /\
  predict_draw (H := RNum Phi Phiinv) beta (map (map (fun r => set_mu_sigma r (r_mu r + d) (r_sigma r))) teams)
    = predict_draw (H := RNum Phi Phiinv) beta teams /\
  predict_rank_probs (H := RNum Phi Phiinv) beta (map (map (fun r => set_mu_sigma r (r_mu r + d) (r_sigma r))) teams)
    = predict_rank_probs (H := RNum Phi Phiinv) beta teams /\
  predict_rank (H := RNum Phi Phiinv) beta (map (map (fun r => set_mu_sigma r (r_mu r + d) (r_sigma r))) teams)
    = predict_rank (H := RNum Phi Phiinv) beta teams.
Proof. exact C16L.shift_predict. Qed.
Print Assumptions C16_shift_predict.

Example C16_shift_predict_ex : forall Phi Phiinv : R -> R,
  let teams := [[mkRating 25 (25 / 3) 0%Z NmNone]; [mkRating 20 4 2%Z NmNone]; [mkRating 20 4 2%Z NmNone]] in
  predict_win (H := RNum Phi Phiinv) (25 / 6) (map (map (fun r => set_mu_sigma r (r_mu r + -40) (r_sigma r))) teams)
  = predict_win (H := RNum Phi Phiinv) (25 / 6) teams.
Proof. intros. apply (C16_shift_predict Phi Phiinv (-40) (25 / 6) 1); [apply le_n | repeat constructor]. Qed.

(** ** Why Thurstone-Mosteller is excluded from the scaling clause *)

(** the draw-margin argument [kappa / c_iq] handed to [v], [w], [vt], [wt] is divided by [a]
    under rescaling (kappa is a pure number in the code; [dmu] is invariant) *)
Theorem C16_tm_threshold_scales : forall (Phi Phiinv : R -> R) (a : R) (P : params R) (g' : gamma_fn R)
  (ti tq : trating R),
  0 < a -> 0 < p_beta P -> 0 < t_ss ti -> 0 < t_ss tq ->
  p_kappa P / c_iq (H := RNum Phi Phiinv) (mkParams (a * p_beta P) (p_kappa P) g')
                (mkT (a * t_mu ti) (a * a * t_ss ti) (map (fun r => set_mu_sigma r (a * r_mu r) (a * r_sigma r)) (t_team ti)) (t_rank ti))
                (mkT (a * t_mu tq) (a * a * t_ss tq) (map (fun r => set_mu_sigma r (a * r_mu r) (a * r_sigma r)) (t_team tq)) (t_rank tq))
  = p_kappa P / c_iq (H := RNum Phi Phiinv) P ti tq / a.
Proof. exact C16L.tm_threshold_scales. Qed.
Print Assumptions C16_tm_threshold_scales.

Example C16_tm_threshold_scales_ex : forall Phi Phiinv : R -> R,
  let N := RNum Phi Phiinv in
  let P := mkParams (1 / 4) 1 gamma_default in
  let t1 := mkT 0 (1 / 16) [mkRating 0 (1 / 4) 0%Z NmNone] 0 in
  let t2 := mkT 0 (1 / 16) [mkRating 0 (1 / 4) 1%Z NmNone] 1 in
  1 / c_iq (mkParams (2 * (1 / 4)) 1 gamma_default)
        (mkT (2 * 0) (2 * 2 * (1 / 16)) (map (fun r => set_mu_sigma r (2 * r_mu r) (2 * r_sigma r)) (t_team t1)) 0)
        (mkT (2 * 0) (2 * 2 * (1 / 16)) (map (fun r => set_mu_sigma r (2 * r_mu r) (2 * r_sigma r)) (t_team t2)) 1)
  = 1 / c_iq P t1 t2 / 2.
Proof. intros. apply (C16_tm_threshold_scales Phi Phiinv 2 P gamma_default t1 t2); cbn; lra. Qed.

(** and the scaling law of [C16_scale_compute] is false for Thurstone-Mosteller (full pairing),
    for every [Phi] with the textbook properties of the normal distribution function.
    Witness: a = 2, beta = 1/4, kappa = 1, default gamma, two one-player teams with
    mu = 0, sigma = 1/4, first team wins: t = kappa/c is 2 in the small unit and 1 in the
    large one, and v(0,2) = phi(2)/Phi(-2) > 2 > phi(1)/Phi(-1) = v(0,1) by the two Mills-ratio
    bounds, so the winner's posterior mu is not multiplied by 2.  Uses [gf_mono], [gf_tail8],
    [gf_range], [gf_mills], [gf_mills_up].  (Non-vacuity: the premise is instantiated --
    [GaussFull.GaussFacts_inst : GaussFacts GaussInst.PhiK GaussInst.PhiinvK] is proved without
    hypothesis for the standard normal distribution function [GaussInst.PhiK] constructed in
    GaussInst.v (Gaussian integral in GaussIntegral.v); [C16_tm_scale_refuted_inst] at the end
    of the file is the refutation for that function, with no premise: nothing about the normal
    distribution is assumed any more; the only remaining link is that CPython's NormalDist
    computes this function.) *)
Theorem C16_tm_scale_refuted : forall (Phi Phiinv : R -> R), GaussFacts Phi Phiinv ->
  exists (a : R) (P : params R) (trs : list (trating R)),
    0 < a /\ 0 < p_beta P /\ 0 < p_kappa P <= 1 /\ Forall (fun t => 0 < t_ss t) trs /\
    (forall c n mu ss team rank, 0 < c -> 0 < ss ->
       gamma_default (H := RNum Phi Phiinv) (a * c) n (a * mu) (a * a * ss)
         (map (fun r => set_mu_sigma r (a * r_mu r) (a * r_sigma r)) team) rank
       = p_gamma P c n mu ss team rank) /\
    compute (H := RNum Phi Phiinv) TMF (mkParams (a * p_beta P) (p_kappa P) (gamma_default (H := RNum Phi Phiinv)))
      (map (fun t => mkT (a * t_mu t) (a * a * t_ss t)
                         (map (fun r => set_mu_sigma r (a * r_mu r) (a * r_sigma r)) (t_team t)) (t_rank t)) trs)
    <> map (map (fun r => set_mu_sigma r (a * r_mu r) (a * r_sigma r))) (compute (H := RNum Phi Phiinv) TMF P trs).
Proof. exact C16L.tm_scale_refuted. Qed.
Print Assumptions C16_tm_scale_refuted.

(** ** The [GaussFacts] premise instantiated.

    Each theorem above that takes [GaussFacts Phi Phiinv] as a premise is restated here for
    the concrete standard normal distribution function [GaussInst.PhiK] and its inverse
    [GaussInst.PhiinvK] (constructed in GaussInst.v), with no premise about the normal law:
    [GaussFull.GaussFacts_inst : GaussFacts GaussInst.PhiK GaussInst.PhiinvK] is proved
    outright (calculus facts in GaussCalc.v, the Gaussian integral in GaussIntegral.v). *)
Theorem C16_tm_scale_refuted_inst : exists (a : R) (P : params R) (trs : list (trating R)),
    0 < a /\ 0 < p_beta P /\ 0 < p_kappa P <= 1 /\ Forall (fun t => 0 < t_ss t) trs /\
    (forall c n mu ss team rank, 0 < c -> 0 < ss ->
       gamma_default (H := RNum GaussInst.PhiK GaussInst.PhiinvK) (a * c) n (a * mu) (a * a * ss)
         (map (fun r => set_mu_sigma r (a * r_mu r) (a * r_sigma r)) team) rank
       = p_gamma P c n mu ss team rank) /\
    compute (H := RNum GaussInst.PhiK GaussInst.PhiinvK) TMF (mkParams (a * p_beta P) (p_kappa P) (gamma_default (H := RNum GaussInst.PhiK GaussInst.PhiinvK)))
      (map (fun t => mkT (a * t_mu t) (a * a * t_ss t)
                         (map (fun r => set_mu_sigma r (a * r_mu r) (a * r_sigma r)) (t_team t)) (t_rank t)) trs)
    <> map (map (fun r => set_mu_sigma r (a * r_mu r) (a * r_sigma r))) (compute (H := RNum GaussInst.PhiK GaussInst.PhiinvK) TMF P trs).
Proof. exact (C16_tm_scale_refuted GaussInst.PhiK GaussInst.PhiinvK GaussFull.GaussFacts_inst). Qed.
Print Assumptions C16_tm_scale_refuted_inst.

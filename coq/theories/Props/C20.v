(** * C20: ratings can be built, stored and restored without changing any later result.

    Definitions used (in Lemmas/C20L.v):
    [rebuild fresh r := new_rating (r_mu r) (r_sigma r) NmNone (fresh r)] — a
      rating rebuilt from its stored numbers: new id, no name;
    a league: the table [st : list (rating F)] of all players; a [game] names
      the player indices of each team, the rank keys, tau and limit_sigma;
      [play] fetches the players, runs [rate_core] and writes the results back;
      [league] plays a list of games in sequence; [league_rb] does the same but
      before each game optionally rebuilds the WHOLE table from stored numbers.
    Fresh ids are an argument of the model ([fresh]); their uniqueness is a
    property of uuid4, outside the model.  Object identity ("a distinct
    object") is not represented in the model either: [deepcopy] is the identity
    on values, which is the content of "preserves mu, sigma, name and id". *)
From Coq Require Import List ZArith Bool.
From OSV Require Import Num Order Core Predict PyVal Prog RatingOps.
From OSV.Lemmas Require C18L RelabelL C20L.
Import ListNotations.

(** ** model.rating(mu, sigma, name) *)
Theorem C20_model_rating : forall (F : Type) (N : Num F) (st : mstate F) (mu sigma : F)
    (nm : name) (fresh : Z),
  model_rating st (Some mu) (Some sigma) nm fresh = mkRating mu sigma fresh nm /\
  model_rating st None (Some sigma) nm fresh = mkRating (m_mu st) sigma fresh nm /\
  model_rating st (Some mu) None nm fresh = mkRating mu (m_sigma st) fresh nm /\
  model_rating st None None nm fresh = mkRating (m_mu st) (m_sigma st) fresh nm.
Proof. intros F N; exact (@C20L.model_rating_all F). Qed.
Print Assumptions C20_model_rating.

Theorem C20_model_rating_fields : forall (F : Type) (N : Num F) (st : mstate F)
    (mu sigma : option F) (nm : name) (fresh : Z),
  r_mu (model_rating st mu sigma nm fresh) = match mu with Some x => x | None => m_mu st end /\
  r_sigma (model_rating st mu sigma nm fresh)
    = match sigma with Some x => x | None => m_sigma st end /\
  r_name (model_rating st mu sigma nm fresh) = nm /\
  r_id (model_rating st mu sigma nm fresh) = fresh.
Proof. intros F N; exact (@C20L.model_rating_fields F). Qed.
Print Assumptions C20_model_rating_fields.

(** ** model.create_rating([mu, sigma], name) *)
Theorem C20_create_rating : forall (F : Type) (N : Num F) (k : kind) (a b : pyval F) (x y : F)
    (nm : name) (fresh : Z),
  as_float a = Ok x -> as_float b = Ok y ->
  create_rating k (PList [a; b]) nm fresh = Ok (mkRating x y fresh nm).
Proof. exact (@C20L.create_rating_ok). Qed.
Print Assumptions C20_create_rating.

(** what counts as a number, and its value: bool, int, float; nothing else *)
Theorem C20_as_float : forall (F : Type) (N : Num F) (v : pyval F),
  match v with
  | PBool b => as_float v = Ok (fofZ (if b then 1 else 0)%Z)
  | PInt z => as_float v = Ok (fofZ z)
  | PFloat x _ _ => as_float v = Ok x
  | _ => as_float v = Raise TypeError
  end.
Proof. exact (@C20L.as_float_cases). Qed.
Print Assumptions C20_as_float.

(** zero, negative and bool values are stored as given; the empty-string name is kept *)
Example C20_create_rating_zero_negative : forall (F : Type) (N : Num F) (k : kind) (fresh tag : Z)
    (x : F) (num e : Z),
  create_rating k (PList [PInt 0; PInt (-3)]) (NmStr false tag) fresh
    = Ok (mkRating (fofZ 0) (fofZ (-3)) fresh (NmStr false tag)) /\
  create_rating k (PList [PBool false; PFloat x num e]) NmNone fresh
    = Ok (mkRating (fofZ 0) x fresh NmNone).
Proof. intros; split; reflexivity. Qed.

Theorem C20_create_rating_bad_element : forall (F : Type) (N : Num F) (k : kind) (a b : pyval F)
    (nm : name) (fresh : Z),
  (exists e, as_float a = Raise e) \/ (exists e, as_float b = Raise e) ->
  create_rating k (PList [a; b]) nm fresh = Raise ValueError.
Proof. exact (@C20L.create_rating_bad_elem). Qed.
Print Assumptions C20_create_rating_bad_element.

Example C20_create_rating_bad_element_nonvacuous :
  (exists e, @as_float Z C18L.ZNum PNone = Raise e) /\
  (exists e, @as_float Z C18L.ZNum (PStr true) = Raise e).
Proof. split; eexists; reflexivity. Qed.

Theorem C20_create_rating_bad_shape : forall (F : Type) (N : Num F) (k : kind) (v : pyval F)
    (nm : name) (fresh : Z),
  (forall a b, v <> PList [a; b]) -> create_rating k v nm fresh = Raise TypeError.
Proof. exact (@C20L.create_rating_bad_shape). Qed.
Print Assumptions C20_create_rating_bad_shape.

Example C20_create_rating_bad_shape_nonvacuous :
  (forall a b : pyval Z, PTuple [PInt 1; PInt 2] <> PList [a; b]) /\
  (forall a b : pyval Z, PList [PInt 1] <> PList [a; b]) /\
  (forall (r : rating Z) (a b : pyval Z), PRating PL r <> PList [a; b]).
Proof. repeat split; intros; intro E; discriminate E. Qed.

(** ** copy.deepcopy *)
Theorem C20_deepcopy : forall (F : Type) (N : Num F) (r : rating F) (fresh : Z),
  deepcopy r fresh = r /\
  r_mu (deepcopy r fresh) = r_mu r /\ r_sigma (deepcopy r fresh) = r_sigma r /\
  r_name (deepcopy r fresh) = r_name r /\ r_id (deepcopy r fresh) = r_id r.
Proof. intros F N r fresh; split; [apply C20L.deepcopy_id|apply C20L.deepcopy_fields]. Qed.
Print Assumptions C20_deepcopy.

Theorem C20_deepcopy_nested : forall (F : Type) (N : Num F) (fresh : rating F -> Z)
    (teams : list (list (rating F))),
  map (map (fun r => deepcopy r (fresh r))) teams = teams.
Proof. intros F N; exact (@C20L.deepcopy_nested F). Qed.
Print Assumptions C20_deepcopy_nested.

(** ** rebuilding players from stored (mu, sigma) *)

(** The general fact: [rate_core] on two games with the same numbers (whatever
    the ids and names) returns the same numbers, provided the user-supplied
    gamma callback, which is handed the team's rating objects, only looks at
    their numbers. *)
Theorem C20_rate_values_only : forall (F : Type) (N : Num F) (k : kind) (P : params F) (tau : F)
    (lim : bool) (teams teams' : list (list (rating F))) (keys : option (list key)),
  (forall c n mu ss (t1 t2 : list (rating F)) rank,
     map (fun r => (r_mu r, r_sigma r)) t1 = map (fun r => (r_mu r, r_sigma r)) t2 ->
     p_gamma P c n mu ss t1 rank = p_gamma P c n mu ss t2 rank) ->
  map (map (fun r => (r_mu r, r_sigma r))) teams
    = map (map (fun r => (r_mu r, r_sigma r))) teams' ->
  map (map (fun r => (r_mu r, r_sigma r))) (rate_core k P tau lim teams keys)
  = map (map (fun r => (r_mu r, r_sigma r))) (rate_core k P tau lim teams' keys).
Proof. exact (@RelabelL.rate_core_values_only). Qed.
Print Assumptions C20_rate_values_only.

Theorem C20_rebuild : forall (F : Type) (N : Num F) (k : kind) (P : params F) (tau : F)
    (lim : bool) (teams : list (list (rating F))) (keys : option (list key))
    (fresh : rating F -> Z),
  (forall c n mu ss (t1 t2 : list (rating F)) rank,
     map (fun r => (r_mu r, r_sigma r)) t1 = map (fun r => (r_mu r, r_sigma r)) t2 ->
     p_gamma P c n mu ss t1 rank = p_gamma P c n mu ss t2 rank) ->
  map (map (fun r => (r_mu r, r_sigma r)))
      (rate_core k P tau lim (map (map (C20L.rebuild fresh)) teams) keys)
  = map (map (fun r => (r_mu r, r_sigma r))) (rate_core k P tau lim teams keys).
Proof. exact (@C20L.rebuild_rate). Qed.
Print Assumptions C20_rebuild.

(** the default gamma callback satisfies the premise (it ignores the team) *)
Example C20_gamma_default_values_only : forall (F : Type) (N : Num F) (beta kappa : F),
  forall c n mu ss (t1 t2 : list (rating F)) rank,
     map (fun r => (r_mu r, r_sigma r)) t1 = map (fun r => (r_mu r, r_sigma r)) t2 ->
     p_gamma (mkParams beta kappa gamma_default) c n mu ss t1 rank
     = p_gamma (mkParams beta kappa gamma_default) c n mu ss t2 rank.
Proof. intros; reflexivity. Qed.

(** predictions: no premise *)
Theorem C20_rebuild_predict : forall (F : Type) (N : Num F) (beta : F)
    (teams : list (list (rating F))) (fresh : rating F -> Z),
  predict_win beta (map (map (C20L.rebuild fresh)) teams) = predict_win beta teams /\
  predict_draw beta (map (map (C20L.rebuild fresh)) teams) = predict_draw beta teams /\
  predict_rank beta (map (map (C20L.rebuild fresh)) teams) = predict_rank beta teams.
Proof. exact (@C20L.rebuild_predict). Qed.
Print Assumptions C20_rebuild_predict.

Theorem C20_predict_values_only : forall (F : Type) (N : Num F) (beta : F)
    (teams teams' : list (list (rating F))),
  map (map (fun r => (r_mu r, r_sigma r))) teams
    = map (map (fun r => (r_mu r, r_sigma r))) teams' ->
  predict_win beta teams = predict_win beta teams' /\
  predict_draw beta teams = predict_draw beta teams' /\
  predict_rank beta teams = predict_rank beta teams'.
Proof. intros F N beta t t' E; split; [apply RelabelL.predict_win_values_only|split; [apply RelabelL.predict_draw_values_only|apply RelabelL.predict_rank_values_only]]; exact E. Qed.
Print Assumptions C20_predict_values_only.

(** The whole calls, on Python values in which every rating object has been
    rebuilt ([C20L.rebuild_val]): [rate] validates alike, performs the same
    attribute reads and writes the same numbers into the rating objects in the
    same order (the trace), leaves the same model state, and returns ratings
    with the same numbers, or raises the same exception. *)
Theorem C20_rebuild_rate_call : forall (F : Type) (N : Num F) (fresh : rating F -> Z) (k : kind)
    (teams ranks scores tau limit : pyval F) (st : mstate F),
  (forall c n mu ss (t1 t2 : list (rating F)) rank,
     map (fun r => (r_mu r, r_sigma r)) t1 = map (fun r => (r_mu r, r_sigma r)) t2 ->
     m_gamma st c n mu ss t1 rank = m_gamma st c n mu ss t2 rank) ->
  let r := run (rate_prog k (C20L.rebuild_val fresh teams) ranks scores tau limit) st in
  let r' := run (rate_prog k teams ranks scores tau limit) st in
  fst r = fst r' /\
  match snd r, snd r' with
  | Ok a, Ok b => map (map (fun r => (r_mu r, r_sigma r))) a
                  = map (map (fun r => (r_mu r, r_sigma r))) b
  | Raise e, Raise e' => e = e'
  | _, _ => False
  end.
Proof. exact (@C20L.rate_prog_rebuild). Qed.
Print Assumptions C20_rebuild_rate_call.

Example C20_rebuild_rate_call_nonvacuous : forall (F : Type) (N : Num F) (a b c d e : F) (l : bool),
  forall c0 n mu ss (t1 t2 : list (rating F)) rank,
     map (fun r => (r_mu r, r_sigma r)) t1 = map (fun r => (r_mu r, r_sigma r)) t2 ->
     m_gamma (mkState a b c d e gamma_default l) c0 n mu ss t1 rank
     = m_gamma (mkState a b c d e gamma_default l) c0 n mu ss t2 rank.
Proof. intros; reflexivity. Qed.

Theorem C20_rebuild_predict_call : forall (F : Type) (N : Num F) (fresh : rating F -> Z) (k : kind)
    (teams : pyval F) (st : mstate F),
  run (predict_win_prog k (C20L.rebuild_val fresh teams)) st = run (predict_win_prog k teams) st /\
  run (predict_draw_prog k (C20L.rebuild_val fresh teams)) st = run (predict_draw_prog k teams) st /\
  run (predict_rank_prog k (C20L.rebuild_val fresh teams)) st = run (predict_rank_prog k teams) st.
Proof. exact (@C20L.predict_runs_rebuild). Qed.
Print Assumptions C20_rebuild_predict_call.

(** ** leagues *)

(** Two tables holding the same numbers give, after any sequence of games, tables
    holding the same numbers (so also after every prefix of the sequence). *)
Theorem C20_league_values_only : forall (F : Type) (N : Num F) (k : kind) (P : params F)
    (games : list C20L.game) (st st' : list (rating F)),
  (forall c n mu ss (t1 t2 : list (rating F)) rank,
     map (fun r => (r_mu r, r_sigma r)) t1 = map (fun r => (r_mu r, r_sigma r)) t2 ->
     p_gamma P c n mu ss t1 rank = p_gamma P c n mu ss t2 rank) ->
  map (fun r => (r_mu r, r_sigma r)) st = map (fun r => (r_mu r, r_sigma r)) st' ->
  map (fun r => (r_mu r, r_sigma r)) (C20L.league k P games st)
  = map (fun r => (r_mu r, r_sigma r)) (C20L.league k P games st').
Proof. exact (@C20L.league_values_only). Qed.
Print Assumptions C20_league_values_only.

(** Rebuilding the whole table from its stored numbers before any of the games
    (each game carries [Some fresh] = rebuild now with these new ids, or [None])
    leaves the numbers after the last game — the list of games being arbitrary,
    after every game — exactly as in the league played with the original objects. *)
Theorem C20_league : forall (F : Type) (N : Num F) (k : kind) (P : params F)
    (games : list (option (rating F -> Z) * C20L.game)) (st : list (rating F)),
  (forall c n mu ss (t1 t2 : list (rating F)) rank,
     map (fun r => (r_mu r, r_sigma r)) t1 = map (fun r => (r_mu r, r_sigma r)) t2 ->
     p_gamma P c n mu ss t1 rank = p_gamma P c n mu ss t2 rank) ->
  map (fun r => (r_mu r, r_sigma r)) (C20L.league_rb k P games st)
  = map (fun r => (r_mu r, r_sigma r)) (C20L.league k P (map snd games) st).
Proof. exact (@C20L.league_rebuild). Qed.
Print Assumptions C20_league.

(** A concrete three-game league on the integers (ad-hoc arithmetic), rebuilt
    before the 2nd and 3rd game: ids and names differ, numbers agree, and they
    are not the initial numbers. *)
Example C20_league_nonvacuous :
  let st0 := [mkRating 2500 800 1 NmNone; mkRating 3000 700 2 (NmStr true 1);
              mkRating 2000 900 3 NmNone]%Z in
  let P0 := mkParams 400%Z 0%Z (@gamma_default Z C18L.ZNum) in
  let gs := [(None, C20L.mkGame [[0]; [1; 2]] None 8%Z false);
             (Some (fun r : rating Z => (r_id r + 100)%Z),
              C20L.mkGame [[2]; [0]] (Some [(2, 0); (1, 0)]%Z) 0%Z true);
             (Some (fun r : rating Z => (r_id r + 100)%Z),
              C20L.mkGame [[1]; [0]; [2]] None 0%Z true)] in
  map (fun r => (r_mu r, r_sigma r)) (@C20L.league_rb Z C18L.ZNum BTF P0 gs st0)
    = [(4368, 800); (3770, 700); (1391, 900)]%Z /\
  map (fun r => (r_mu r, r_sigma r)) (@C20L.league Z C18L.ZNum BTF P0 (map snd gs) st0)
    = [(4368, 800); (3770, 700); (1391, 900)]%Z /\
  map r_id (@C20L.league_rb Z C18L.ZNum BTF P0 gs st0) = [201; 202; 203]%Z /\
  map r_id (@C20L.league Z C18L.ZNum BTF P0 (map snd gs) st0) = [1; 2; 3]%Z.
Proof. vm_compute. repeat split. Qed.

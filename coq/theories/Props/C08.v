(** * C08 — "Totality: valid games give finite ratings and probabilities, never an
    exception" (over R, with explicit exception tracking).

    Coq's [/], [sqrt], [exp] are total, so "no exception" is made explicit by running the
    SAME polymorphic model on the carrier [option R] with the dictionary
    [CNum Phi Phiinv] of Checked.v: [None] = "an arithmetic exception was raised".  It
    raises exactly where the executable float dictionary (ocaml/driver.ml, [fnum]) and
    CPython do: division by 0, [sqrt] of a negative number, [exp x] for [x > EXPMAX]
    ([EXPMAX] = 709.782712893384 = 7097827128933840/10^13, the overflow threshold of
    [math.exp]), [inv_cdf p] unless [0 < p < 1]; every operation is strict in [None];
    comparisons with a [None] operand are [false]; [ffinite None = false].
    [lift_game] injects real ratings ([Some mu], [Some sigma]).

    Each theorem is a simulation: the checked run returns [Some] of what the unchecked
    real run ([RNum Phi Phiinv]) returns — in particular every number of the result is
    [Some _]: no exception escaped, at any intermediate step (strictness).  No premise
    about [Phi]/[Phiinv] is needed: the guards are pure arithmetic and the code's own
    epsilon tests.

    Not expressed over R (stays with the run-time monitors, DESIGN.md §7 C08): overflow of
    [x ** 2] (OverflowError in CPython) and of [*], [+] (silent infinities), i.e. "all
    numbers finite in binary64".  These depend on the magnitudes of beta, sigma and tau,
    for which the property's quantifier gives no absolute bound (beta is "rescaled", tau
    is only >= 0); [fpow2] is total in [CNum]. *)
From Coq Require Import List ZArith Reals Lra Lia.
From OSV Require Import Num Order Core Predict RInst Checked.
From OSV.Lemmas Require C08L.
Import ListNotations.
Open Scope R_scope.

(** ** The predictions *)

(** predict_win never raises on >= 2 non-empty teams, beta > 0 (any mu, any sigma): the
    checked run equals the real run.  Guards discharged: [sqrt] of
    [n beta^2 + var_a + var_b >= 0]; division by that root ([> 0]: [n >= 1], for two teams
    [n] = number of players, hence "non-empty"), by [sqrt 2], by [n (n-1) / 2 > 0]. *)
Theorem C08_predict_win_total : forall (Phi Phiinv : R -> R) (beta : R) (teams : list (list (rating R))),
  0 < beta -> (2 <= length teams)%nat -> Forall (fun t => t <> []) teams ->
  predict_win (H := CNum Phi Phiinv) (Some beta) (lift_game teams)
  = map Some (predict_win (H := RNum Phi Phiinv) beta teams).
Proof. exact C08L.C_predict_win. Qed.
Print Assumptions C08_predict_win_total.

(** the hypotheses are satisfiable (the checked run itself cannot be evaluated by
    [vm_compute]: the carrier is Coq's axiomatic R) *)
Example C08_predict_win_total_ex : forall Phi Phiinv : R -> R,
  let g := [[mkRating 25 8 0%Z NmNone; mkRating 20 3 1%Z NmNone]; [mkRating 30 0 2%Z NmNone]] in
  predict_win (H := CNum Phi Phiinv) (Some 4) (lift_game g) = map Some (predict_win (H := RNum Phi Phiinv) 4 g).
Proof.
  intros. apply C08_predict_win_total; [lra | apply le_n | repeat constructor; discriminate].
Qed.

(** predict_draw never raises.  Additional guards: [sqrt N], [1 / N] with [N >= 2] players,
    and the argument [(1 + 1/N) / 2] of [inv_cdf] lies in (1/2, 3/4], inside (0, 1);
    division by [n (n-1)] resp. 1. *)
Theorem C08_predict_draw_total : forall (Phi Phiinv : R -> R) (beta : R) (teams : list (list (rating R))),
  0 < beta -> (2 <= length teams)%nat -> Forall (fun t => t <> []) teams ->
  predict_draw (H := CNum Phi Phiinv) (Some beta) (lift_game teams)
  = Some (predict_draw (H := RNum Phi Phiinv) beta teams).
Proof. exact C08L.C_predict_draw. Qed.
Print Assumptions C08_predict_draw_total.

Example C08_predict_draw_total_ex : forall Phi Phiinv : R -> R,
  let g := [[mkRating 25 8 0%Z NmNone]; [mkRating 30 0 1%Z NmNone]; [mkRating (-3) 1 2%Z NmNone]] in
  predict_draw (H := CNum Phi Phiinv) (Some 4) (lift_game g) = Some (predict_draw (H := RNum Phi Phiinv) 4 g).
Proof.
  intros. apply C08_predict_draw_total; [lra | apply le_S, le_n | repeat constructor; discriminate].
Qed.

(** predict_rank never raises; the ranks are computed from comparisons of defined numbers
    only and agree with the real run. *)
Theorem C08_predict_rank_total : forall (Phi Phiinv : R -> R) (beta : R) (teams : list (list (rating R))),
  0 < beta -> (2 <= length teams)%nat -> Forall (fun t => t <> []) teams ->
  predict_rank (H := CNum Phi Phiinv) (Some beta) (lift_game teams)
  = map (fun rp => (fst rp, Some (snd rp))) (predict_rank (H := RNum Phi Phiinv) beta teams).
Proof. exact C08L.C_predict_rank. Qed.
Print Assumptions C08_predict_rank_total.

Example C08_predict_rank_total_ex : forall Phi Phiinv : R -> R,
  let g := [[mkRating 25 8 0%Z NmNone]; [mkRating 30 0 1%Z NmNone]] in
  predict_rank (H := CNum Phi Phiinv) (Some 4) (lift_game g)
  = map (fun rp => (fst rp, Some (snd rp))) (predict_rank (H := RNum Phi Phiinv) 4 g).
Proof.
  intros. apply C08_predict_rank_total; [lra | apply le_n | repeat constructor; discriminate].
Qed.

(** ** rate

    Domain: beta > 0, kappa > 0, >= 2 teams, non-empty teams, [sigma^2 + tau^2 > 0] for every
    player (sigma = 0 is allowed when tau <> 0), teams of at most 16 players and
    |mu| <= 20 beta (these two bounds are what keeps the arguments of [exp] below [EXPMAX]:
    |team mu| <= 320 beta, [c >= sqrt 2 beta] as there are >= 2 teams, so
    [mu_i / c <= 320 / sqrt 2 < 227] (PL) and [(mu_q - mu_i) / c_iq <= 640 / sqrt 2 < 454]
    (BT); the proof uses the lower bound 1.41 beta for [c] and [c_iq], 1.41^2 < 2), rank keys (if any) one per team.  NOT needed, and
    therefore not assumed: sigma >= 0, tau >= 0, sigma <= 10 beta, kappa <= 1e-2.

    Guards discharged: [sqrt (sigma^2 + tau^2)]; division by the team's [sigma^2 > 0];
    [sqrt (max (1 - share * delta, kappa))] with [max >= kappa > 0]; division by
    [c, c_iq, 2 c_iq >= 1.41 beta > 0] and by [c^2]; [exp] below the overflow threshold;
    division by [1 + exp > 0], by [sum_q > 0] (a non-empty sum of exponentials), by
    [A_q >= 1]; in [v w vt wt]: [sqrt 2], [sqrt tau] (math.tau), [exp (-x^2/2)] (argument
    <= 0), and division by [cdf >= 2^-52] resp. by the window mass [>= 1e-5], [>= 2^-52]
    on the exact branches (the code's own epsilon tests).

    General form: any kind, any gamma callback whose checked version simulates its real
    version on defined arguments (true of the default gamma and of constants). *)
Theorem C08_rate_total : forall (Phi Phiinv : R -> R) (k : kind) (beta kappa tau : R)
    (gC : gamma_fn (option R)) (gR : gamma_fn R) (limit : bool)
    (teams : list (list (rating R))) (keys : option (list key)),
  (forall c n mu ss team rank, 0 < c -> 0 <= ss ->
     gC (Some c) n (Some mu) (Some ss) (lift_team team) rank = Some (gR c n mu ss team rank)) ->
  0 < beta -> 0 < kappa ->
  (2 <= length teams)%nat -> Forall (fun t => t <> []) teams ->
  Forall (Forall (fun p => 0 < r_sigma p * r_sigma p + tau * tau)) teams ->
  Forall (fun t => (length t <= 16)%nat /\ Forall (fun p => Rabs (r_mu p) <= 20 * beta) t) teams ->
  match keys with Some ks => length ks = length teams | None => True end ->
  rate_core (H := CNum Phi Phiinv) k (mkParams (Some beta) (Some kappa) gC) (Some tau) limit (lift_game teams) keys
  = lift_game (rate_core (H := RNum Phi Phiinv) k (mkParams beta kappa gR) tau limit teams keys).
Proof. intros; apply C08L.C_rate_core; auto. Qed.
Print Assumptions C08_rate_total.

Example C08_rate_total_ex : forall Phi Phiinv : R -> R,
  let g := [[mkRating 25 (25/3) 0%Z NmNone; mkRating (-80) 40 1%Z NmNone]; [mkRating 30 0 2%Z NmNone];
            [mkRating 0 1 3%Z NmNone]] in
  let P := mkParams (Some (25/6)) (Some (1/10000)) (fun _ _ _ _ _ _ => Some 1) in
  let P' := mkParams (25/6) (1/10000) (fun _ _ _ _ _ _ => 1) in
  rate_core (H := CNum Phi Phiinv) BTP P (Some (1/12)) false (lift_game g) None
  = lift_game (rate_core (H := RNum Phi Phiinv) BTP P' (1/12) false g None).
Proof.
  intros. apply C08_rate_total; try lra; try reflexivity.
  - apply le_S, le_n.
  - repeat constructor; discriminate.
  - repeat constructor; cbn; lra.
  - repeat constructor; cbn; try lia; unfold Rabs; destruct (Rcase_abs _); lra.
Qed.

(** the default gamma [sqrt (team sigma^2) / c] qualifies *)
Theorem C08_gamma_default_ok : forall (Phi Phiinv : R -> R) c (n : nat) mu ss (team : list (rating R)) (rank : nat),
  0 < c -> 0 <= ss ->
  gamma_default (H := CNum Phi Phiinv) (Some c) n (Some mu) (Some ss) (lift_team team) rank
  = Some (gamma_default (H := RNum Phi Phiinv) c n mu ss team rank).
Proof. exact C08L.gamma_default_sim. Qed.
Print Assumptions C08_gamma_default_ok.

(** Plackett-Luce, default gamma *)
Theorem C08_rate_total_PL : forall (Phi Phiinv : R -> R) (beta kappa tau : R) (limit : bool)
    (teams : list (list (rating R))) (keys : option (list key)),
  0 < beta -> 0 < kappa ->
  (2 <= length teams)%nat -> Forall (fun t => t <> []) teams ->
  Forall (Forall (fun p => 0 < r_sigma p * r_sigma p + tau * tau)) teams ->
  Forall (fun t => (length t <= 16)%nat /\ Forall (fun p => Rabs (r_mu p) <= 20 * beta) t) teams ->
  match keys with Some ks => length ks = length teams | None => True end ->
  rate_core (H := CNum Phi Phiinv) PL (mkParams (Some beta) (Some kappa) (gamma_default (H := CNum Phi Phiinv)))
            (Some tau) limit (lift_game teams) keys
  = lift_game (rate_core (H := RNum Phi Phiinv) PL (mkParams beta kappa (gamma_default (H := RNum Phi Phiinv)))
                         tau limit teams keys).
Proof. intros; apply C08L.C_rate_core; auto using C08L.gamma_default_sim. Qed.
Print Assumptions C08_rate_total_PL.

Example C08_rate_total_PL_ex : forall Phi Phiinv : R -> R,
  let g := [[mkRating 25 (25/3) 0%Z NmNone; mkRating (-80) 40 1%Z NmNone]; [mkRating 30 0 2%Z NmNone]] in
  let P := mkParams (Some (25/6)) (Some (1/10000)) (gamma_default (H := CNum Phi Phiinv)) in
  let P' := mkParams (25/6) (1/10000) (gamma_default (H := RNum Phi Phiinv)) in
  rate_core (H := CNum Phi Phiinv) PL P (Some (25/300)) true (lift_game g) (Some [(2, 0); (1, 0)]%Z)
  = lift_game (rate_core (H := RNum Phi Phiinv) PL P' (25/300) true g (Some [(2, 0); (1, 0)]%Z)).
Proof.
  intros. apply C08_rate_total_PL; try lra; try reflexivity.
  - repeat constructor; discriminate.
  - repeat constructor; cbn; lra.
  - repeat constructor; cbn; try lia; unfold Rabs; destruct (Rcase_abs _); lra.
Qed.

(** Bradley-Terry full pairing, default gamma (for the dead helper calls of the Python code see [C08_dead_helpers_total]) *)
Theorem C08_rate_total_BTF : forall (Phi Phiinv : R -> R) (beta kappa tau : R) (limit : bool)
    (teams : list (list (rating R))) (keys : option (list key)),
  0 < beta -> 0 < kappa ->
  (2 <= length teams)%nat -> Forall (fun t => t <> []) teams ->
  Forall (Forall (fun p => 0 < r_sigma p * r_sigma p + tau * tau)) teams ->
  Forall (fun t => (length t <= 16)%nat /\ Forall (fun p => Rabs (r_mu p) <= 20 * beta) t) teams ->
  match keys with Some ks => length ks = length teams | None => True end ->
  rate_core (H := CNum Phi Phiinv) BTF (mkParams (Some beta) (Some kappa) (gamma_default (H := CNum Phi Phiinv)))
            (Some tau) limit (lift_game teams) keys
  = lift_game (rate_core (H := RNum Phi Phiinv) BTF (mkParams beta kappa (gamma_default (H := RNum Phi Phiinv)))
                         tau limit teams keys).
Proof. intros; apply C08L.C_rate_core; auto using C08L.gamma_default_sim. Qed.
Print Assumptions C08_rate_total_BTF.

Example C08_rate_total_BTF_ex : forall Phi Phiinv : R -> R,
  let g := [[mkRating 25 (25/3) 0%Z NmNone; mkRating (-80) 40 1%Z NmNone]; [mkRating 30 0 2%Z NmNone]] in
  let P := mkParams (Some (25/6)) (Some (1/10000)) (gamma_default (H := CNum Phi Phiinv)) in
  let P' := mkParams (25/6) (1/10000) (gamma_default (H := RNum Phi Phiinv)) in
  rate_core (H := CNum Phi Phiinv) BTF P (Some (25/300)) true (lift_game g) (Some [(2, 0); (1, 0)]%Z)
  = lift_game (rate_core (H := RNum Phi Phiinv) BTF P' (25/300) true g (Some [(2, 0); (1, 0)]%Z)).
Proof.
  intros. apply C08_rate_total_BTF; try lra; try reflexivity.
  - repeat constructor; discriminate.
  - repeat constructor; cbn; lra.
  - repeat constructor; cbn; try lia; unfold Rabs; destruct (Rcase_abs _); lra.
Qed.

(** Bradley-Terry partial pairing, default gamma *)
Theorem C08_rate_total_BTP : forall (Phi Phiinv : R -> R) (beta kappa tau : R) (limit : bool)
    (teams : list (list (rating R))) (keys : option (list key)),
  0 < beta -> 0 < kappa ->
  (2 <= length teams)%nat -> Forall (fun t => t <> []) teams ->
  Forall (Forall (fun p => 0 < r_sigma p * r_sigma p + tau * tau)) teams ->
  Forall (fun t => (length t <= 16)%nat /\ Forall (fun p => Rabs (r_mu p) <= 20 * beta) t) teams ->
  match keys with Some ks => length ks = length teams | None => True end ->
  rate_core (H := CNum Phi Phiinv) BTP (mkParams (Some beta) (Some kappa) (gamma_default (H := CNum Phi Phiinv)))
            (Some tau) limit (lift_game teams) keys
  = lift_game (rate_core (H := RNum Phi Phiinv) BTP (mkParams beta kappa (gamma_default (H := RNum Phi Phiinv)))
                         tau limit teams keys).
Proof. intros; apply C08L.C_rate_core; auto using C08L.gamma_default_sim. Qed.
Print Assumptions C08_rate_total_BTP.

Example C08_rate_total_BTP_ex : forall Phi Phiinv : R -> R,
  let g := [[mkRating 25 (25/3) 0%Z NmNone; mkRating (-80) 40 1%Z NmNone]; [mkRating 30 0 2%Z NmNone]] in
  let P := mkParams (Some (25/6)) (Some (1/10000)) (gamma_default (H := CNum Phi Phiinv)) in
  let P' := mkParams (25/6) (1/10000) (gamma_default (H := RNum Phi Phiinv)) in
  rate_core (H := CNum Phi Phiinv) BTP P (Some (25/300)) true (lift_game g) (Some [(2, 0); (1, 0)]%Z)
  = lift_game (rate_core (H := RNum Phi Phiinv) BTP P' (25/300) true g (Some [(2, 0); (1, 0)]%Z)).
Proof.
  intros. apply C08_rate_total_BTP; try lra; try reflexivity.
  - repeat constructor; discriminate.
  - repeat constructor; cbn; lra.
  - repeat constructor; cbn; try lia; unfold Rabs; destruct (Rcase_abs _); lra.
Qed.

(** Thurstone-Mosteller full pairing, default gamma (the bounds on team size and mu are not needed by the model's update rule, see [C08_rate_total_TM_unbounded]; they are needed by the dead [_sum_q] call of the Python code, see [C08_dead_helpers_total]) *)
Theorem C08_rate_total_TMF : forall (Phi Phiinv : R -> R) (beta kappa tau : R) (limit : bool)
    (teams : list (list (rating R))) (keys : option (list key)),
  0 < beta -> 0 < kappa ->
  (2 <= length teams)%nat -> Forall (fun t => t <> []) teams ->
  Forall (Forall (fun p => 0 < r_sigma p * r_sigma p + tau * tau)) teams ->
  Forall (fun t => (length t <= 16)%nat /\ Forall (fun p => Rabs (r_mu p) <= 20 * beta) t) teams ->
  match keys with Some ks => length ks = length teams | None => True end ->
  rate_core (H := CNum Phi Phiinv) TMF (mkParams (Some beta) (Some kappa) (gamma_default (H := CNum Phi Phiinv)))
            (Some tau) limit (lift_game teams) keys
  = lift_game (rate_core (H := RNum Phi Phiinv) TMF (mkParams beta kappa (gamma_default (H := RNum Phi Phiinv)))
                         tau limit teams keys).
Proof. intros; apply C08L.C_rate_core; auto using C08L.gamma_default_sim. Qed.
Print Assumptions C08_rate_total_TMF.

Example C08_rate_total_TMF_ex : forall Phi Phiinv : R -> R,
  let g := [[mkRating 25 (25/3) 0%Z NmNone; mkRating (-80) 40 1%Z NmNone]; [mkRating 30 0 2%Z NmNone]] in
  let P := mkParams (Some (25/6)) (Some (1/10000)) (gamma_default (H := CNum Phi Phiinv)) in
  let P' := mkParams (25/6) (1/10000) (gamma_default (H := RNum Phi Phiinv)) in
  rate_core (H := CNum Phi Phiinv) TMF P (Some (25/300)) true (lift_game g) (Some [(2, 0); (1, 0)]%Z)
  = lift_game (rate_core (H := RNum Phi Phiinv) TMF P' (25/300) true g (Some [(2, 0); (1, 0)]%Z)).
Proof.
  intros. apply C08_rate_total_TMF; try lra; try reflexivity.
  - repeat constructor; discriminate.
  - repeat constructor; cbn; lra.
  - repeat constructor; cbn; try lia; unfold Rabs; destruct (Rcase_abs _); lra.
Qed.

(** Thurstone-Mosteller partial pairing, default gamma *)
Theorem C08_rate_total_TMP : forall (Phi Phiinv : R -> R) (beta kappa tau : R) (limit : bool)
    (teams : list (list (rating R))) (keys : option (list key)),
  0 < beta -> 0 < kappa ->
  (2 <= length teams)%nat -> Forall (fun t => t <> []) teams ->
  Forall (Forall (fun p => 0 < r_sigma p * r_sigma p + tau * tau)) teams ->
  Forall (fun t => (length t <= 16)%nat /\ Forall (fun p => Rabs (r_mu p) <= 20 * beta) t) teams ->
  match keys with Some ks => length ks = length teams | None => True end ->
  rate_core (H := CNum Phi Phiinv) TMP (mkParams (Some beta) (Some kappa) (gamma_default (H := CNum Phi Phiinv)))
            (Some tau) limit (lift_game teams) keys
  = lift_game (rate_core (H := RNum Phi Phiinv) TMP (mkParams beta kappa (gamma_default (H := RNum Phi Phiinv)))
                         tau limit teams keys).
Proof. intros; apply C08L.C_rate_core; auto using C08L.gamma_default_sim. Qed.
Print Assumptions C08_rate_total_TMP.

Example C08_rate_total_TMP_ex : forall Phi Phiinv : R -> R,
  let g := [[mkRating 25 (25/3) 0%Z NmNone; mkRating (-80) 40 1%Z NmNone]; [mkRating 30 0 2%Z NmNone]] in
  let P := mkParams (Some (25/6)) (Some (1/10000)) (gamma_default (H := CNum Phi Phiinv)) in
  let P' := mkParams (25/6) (1/10000) (gamma_default (H := RNum Phi Phiinv)) in
  rate_core (H := CNum Phi Phiinv) TMP P (Some (25/300)) true (lift_game g) (Some [(2, 0); (1, 0)]%Z)
  = lift_game (rate_core (H := RNum Phi Phiinv) TMP P' (25/300) true g (Some [(2, 0); (1, 0)]%Z)).
Proof.
  intros. apply C08_rate_total_TMP; try lra; try reflexivity.
  - repeat constructor; discriminate.
  - repeat constructor; cbn; lra.
  - repeat constructor; cbn; try lia; unfold Rabs; destruct (Rcase_abs _); lra.
Qed.

(** Thurstone-Mosteller, as modelled, needs no bound on mu or team size: every [exp] has
    a non-positive argument and the truncated-Gaussian corrections divide only by quantities
    their own epsilon tests bound below. *)
Theorem C08_rate_total_TM_unbounded : forall (Phi Phiinv : R -> R) (k : kind) (beta kappa tau : R) (limit : bool)
    (teams : list (list (rating R))) (keys : option (list key)),
  k = TMF \/ k = TMP ->
  0 < beta -> 0 < kappa ->
  (2 <= length teams)%nat -> Forall (fun t => t <> []) teams ->
  Forall (Forall (fun p => 0 < r_sigma p * r_sigma p + tau * tau)) teams ->
  match keys with Some ks => length ks = length teams | None => True end ->
  rate_core (H := CNum Phi Phiinv) k (mkParams (Some beta) (Some kappa) (gamma_default (H := CNum Phi Phiinv)))
            (Some tau) limit (lift_game teams) keys
  = lift_game (rate_core (H := RNum Phi Phiinv) k (mkParams beta kappa (gamma_default (H := RNum Phi Phiinv)))
                         tau limit teams keys).
Proof. intros; apply C08L.C_rate_core; auto using C08L.gamma_default_sim; tauto. Qed.
Print Assumptions C08_rate_total_TM_unbounded.

Example C08_rate_total_TM_unbounded_ex : forall Phi Phiinv : R -> R,
  let g := [[mkRating 1000000000 (25/3) 0%Z NmNone]; [mkRating (-1000000000) 0 1%Z NmNone]] in
  let P := mkParams (Some (25/6)) (Some (1/10000)) (gamma_default (H := CNum Phi Phiinv)) in
  let P' := mkParams (25/6) (1/10000) (gamma_default (H := RNum Phi Phiinv)) in
  rate_core (H := CNum Phi Phiinv) TMF P (Some (25/300)) true (lift_game g) None
  = lift_game (rate_core (H := RNum Phi Phiinv) TMF P' (25/300) true g None).
Proof.
  intros. apply C08_rate_total_TM_unbounded; try lra; try reflexivity.
  - now left.
  - repeat constructor; discriminate.
  - repeat constructor; cbn; lra.
Qed.

(** The BTF and TMF Python [_compute] also evaluate [c = self._c(...)],
    [sum_q = self._sum_q(..., c)], [a = self._a(...)] and never use them; the Coq model of
    these two kinds omits the dead calls.  They are the Plackett-Luce helpers ([pl_c],
    [pl_sum_q], [pl_a]); on the bounded domain they do not raise either, for the team
    ratings of any game of the domain under any rank assignment (the game that [rate]
    hands to [_compute] is the tau-inflated input sorted by rank: a permutation of the teams,
    and every hypothesis below is permutation-invariant). *)
Theorem C08_dead_helpers_total : forall (Phi Phiinv : R -> R) (beta kappa tau : R)
    (gC : gamma_fn (option R)) (gR : gamma_fn R) (teams : list (list (rating R))) (ranks : list nat),
  0 < beta ->
  (2 <= length teams)%nat -> length ranks = length teams -> Forall (fun t => t <> []) teams ->
  Forall (Forall (fun p => 0 < r_sigma p * r_sigma p + tau * tau)) teams ->
  Forall (fun t => (length t <= 16)%nat /\ Forall (fun p => Rabs (r_mu p) <= 20 * beta) t) teams ->
  let g := map (map (inflate (H := RNum Phi Phiinv) tau)) teams in
  let trs := team_ratings (H := RNum Phi Phiinv) g ranks in
  let trsC := team_ratings (H := CNum Phi Phiinv) (lift_game g) ranks in
  let c := pl_c (H := RNum Phi Phiinv) (mkParams beta kappa gR) trs in
  pl_c (H := CNum Phi Phiinv) (mkParams (Some beta) (Some kappa) gC) trsC = Some c
  /\ pl_sum_q (H := CNum Phi Phiinv) trsC (Some c) = map Some (pl_sum_q (H := RNum Phi Phiinv) trs c)
  /\ pl_a trsC = pl_a trs.
Proof. intros; apply C08L.C_dead_helpers; auto. Qed.
Print Assumptions C08_dead_helpers_total.

Example C08_dead_helpers_total_ex : forall Phi Phiinv : R -> R,
  let teams := [[mkRating 25 (25/3) 0%Z NmNone; mkRating (-80) 40 1%Z NmNone]; [mkRating 30 0 2%Z NmNone]] in
  let g := map (map (inflate (H := RNum Phi Phiinv) (25/300))) teams in
  let trs := team_ratings (H := RNum Phi Phiinv) g [0; 1]%nat in
  let trsC := team_ratings (H := CNum Phi Phiinv) (lift_game g) [0; 1]%nat in
  let c := pl_c (H := RNum Phi Phiinv) (mkParams (25/6) (1/10000) (gamma_default (H := RNum Phi Phiinv))) trs in
  pl_c (H := CNum Phi Phiinv) (mkParams (Some (25/6)) (Some (1/10000)) (gamma_default (H := CNum Phi Phiinv))) trsC = Some c
  /\ pl_sum_q (H := CNum Phi Phiinv) trsC (Some c) = map Some (pl_sum_q (H := RNum Phi Phiinv) trs c)
  /\ pl_a trsC = pl_a trs.
Proof.
  intros. apply C08_dead_helpers_total; try lra; try reflexivity.
  - repeat constructor; discriminate.
  - repeat constructor; cbn; lra.
  - repeat constructor; cbn; try lia; unfold Rabs; destruct (Rcase_abs _); lra.
Qed.

(** ** Reading "equals the lifted real result" as "no exception, all numbers finite" *)
Theorem C08_lifted_finite : forall (Phi Phiinv : R -> R),
  (forall l : list R, Forall (fun o => ffinite (Num := CNum Phi Phiinv) o = true) (map Some l))
  /\ (forall g : list (list (rating R)),
        Forall (Forall (fun r => (exists m, r_mu r = Some m) /\ (exists s, r_sigma r = Some s)
                              /\ ffinite (Num := CNum Phi Phiinv) (r_mu r) = true
                              /\ ffinite (Num := CNum Phi Phiinv) (r_sigma r) = true)) (lift_game g)).
Proof. exact C08L.lifted_finite. Qed.
Print Assumptions C08_lifted_finite.

(** ** The exception tracking is not vacuous: the guards are sharp, and outside the
    domain the checked model does raise. *)
Theorem C08_guards_sharp : forall (Phi Phiinv : R -> R) (a : R),
  fdiv (Num := CNum Phi Phiinv) (Some a) (Some 0) = None
  /\ (a < 0 -> fsqrt (Num := CNum Phi Phiinv) (Some a) = None)
  /\ (EXPMAX < a -> fexp (Num := CNum Phi Phiinv) (Some a) = None)
  /\ (a <= 0 \/ 1 <= a -> ficdf (Num := CNum Phi Phiinv) (Some a) = None)
  /\ fadd (Num := CNum Phi Phiinv) None (Some a) = None
  /\ fltb (Num := CNum Phi Phiinv) None (Some a) = false
  /\ ffinite (Num := CNum Phi Phiinv) None = false.
Proof. exact C08L.guards_sharp. Qed.
Print Assumptions C08_guards_sharp.

(** beta = 0 and sigma = 0: predict_win raises (Python: ZeroDivisionError) *)
Theorem C08_out_of_domain_predict_win_raises : forall (Phi Phiinv : R -> R) (m1 m2 : R),
  predict_win (H := CNum Phi Phiinv) (Some 0) (lift_game [[mkRating m1 0 0%Z NmNone]; [mkRating m2 0 1%Z NmNone]])
  = [None; None].
Proof. exact C08L.C_predict_win_raises. Qed.
Print Assumptions C08_out_of_domain_predict_win_raises.

(** sigma = 0 (and no tau inflation): the per-player update of rate divides by the team's
    sigma^2 = 0 (Python: ZeroDivisionError) *)
Theorem C08_out_of_domain_update_raises : forall (Phi Phiinv : R -> R) (beta kappa : R)
    (gC : gamma_fn (option R)) (omega delta m : R),
  let p := mkRating m 0 0%Z NmNone in
  let ti := team_rating (H := CNum Phi Phiinv) (lift_team [p]) 0 in
  r_mu (update_player (H := CNum Phi Phiinv) (mkParams (Some beta) (Some kappa) gC) ti (Some omega) (Some delta)
          (lift_rating p)) = None.
Proof. exact C08L.C_update_player_raises. Qed.
Print Assumptions C08_out_of_domain_update_raises.

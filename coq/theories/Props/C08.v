(** * C08 — "Totality: valid games give finite ratings and probabilities, never an
    exception" (over R, with explicit exception tracking).

    Coq's [/], [sqrt], [exp] are total, so "no exception" is made explicit by running the
    SAME polymorphic model on the carrier [option R] with the dictionary
    [CNum Phi Phiinv] of Checked.v: [None] = "an arithmetic exception was raised".  It
    raises exactly where the executable float dictionary (ocaml/driver.ml, [fnum]) and
    CPython do: division by 0, [sqrt] of a negative number, [exp x] for [x > EXPMAX]
    ([EXPMAX] = 709.782712893384 = 7097827128933840/10^13, the overflow threshold of
    [math.exp]), [inv_cdf p] unless [0 < p < 1]; every operation is strict in [None];
    comparisons with a [None] operand are [false]; [ffinite None = false].
    [lift_game] injects real ratings ([Some mu], [Some sigma]).

    Each theorem is a simulation: the checked run returns [Some] of what the unchecked
    real run ([RNum Phi Phiinv]) returns — in particular every number of the result is
    [Some _]: no exception escaped, at any intermediate step (strictness).  No premise
    about [Phi]/[Phiinv] is needed: the guards are pure arithmetic and the code's own
    epsilon tests.

    Not expressed over R (stays with the run-time monitors, DESIGN.md §7 C08): overflow of
    [x ** 2] (OverflowError in CPython) and of [*], [+] (silent infinities), i.e. "all
    numbers finite in binary64".  These depend on the magnitudes of beta, sigma and tau,
    for which the property's quantifier gives no absolute bound (beta is "rescaled", tau
    is only >= 0); [fpow2] is total in [CNum]. *)
From Coq Require Import List ZArith Reals Lra Lia.
From OSV Require Import Num Order Core Predict RInst Checked.
From OSV.Lemmas Require C08L.
Import ListNotations.
Open Scope R_scope.

(** ** The predictions *)

(** predict_win never raises on >= 2 non-empty teams, beta > 0 (any mu, any sigma): the
    checked run equals the real run.  Guards discharged: [sqrt] of
    [n beta^2 + var_a + var_b >= 0]; division by that root ([> 0]: [n >= 1], for two teams
    [n] = number of players, hence "non-empty"), by [sqrt 2], by [n (n-1) / 2 > 0]. *)
Theorem C08_predict_win_total : forall (Phi Phiinv : R -> R) (beta : R) (teams : list (list (rating R))),
  0 < beta -> (2 <= length teams)%nat -> Forall (fun t => t <> []) teams ->
  predict_win (H := CNum Phi Phiinv) (Some beta) (lift_game teams)
  = map Some (predict_win (H := RNum Phi Phiinv) beta teams).
Proof. exact C08L.C_predict_win. Qed.
Print Assumptions C08_predict_win_total.

(** the hypotheses are satisfiable (the checked run itself cannot be evaluated by
    [vm_compute]: the carrier is Coq's axiomatic R) *)
Example C08_predict_win_total_ex : forall Phi Phiinv : R -> R,
  let g := [[mkRating 25 8 0%Z NmNone; mkRating 20 3 1%Z NmNone]; [mkRating 30 0 2%Z NmNone]] in
  predict_win (H := CNum Phi Phiinv) (Some 4) (lift_game g) = map Some (predict_win (H := RNum Phi Phiinv) 4 g).
Proof.
  intros. apply C08_predict_win_total; [lra | apply le_n | repeat constructor; discriminate].
Qed.

(** predict_draw never raises.  Additional guards: [sqrt N], [1 / N] with [N >= 2] players,
    and the argument [(1 + 1/N) / 2] of [inv_cdf] lies in (1/2, 3/4], inside (0, 1);
    division by [n (n-1)] resp. 1. *)
Theorem C08_predict_draw_total : forall (Phi Phiinv : R -> R) (beta : R) (teams : list (list (rating R))),
  0 < beta -> (2 <= length teams)%nat -> Forall (fun t => t <> []) teams ->
  predict_draw (H := CNum Phi Phiinv) (Some beta) (lift_game teams)
  = Some (predict_draw (H := RNum Phi Phiinv) beta teams).
Proof. exact C08L.C_predict_draw. Qed.
Print Assumptions C08_predict_draw_total.

Example C08_predict_draw_total_ex : forall Phi Phiinv : R -> R,
  let g := [[mkRating 25 8 0%Z NmNone]; [mkRating 30 0 1%Z NmNone]; [mkRating (-3) 1 2%Z NmNone]] in
  predict_draw (H := CNum Phi Phiinv) (Some 4) (lift_game g) = Some (predict_draw (H := RNum Phi Phiinv) 4 g).
Proof.
  intros. apply C08_predict_draw_total; [lra | apply le_S, le_n | repeat constructor; discriminate].
Qed.

(** predict_rank never raises; the ranks are computed from comparisons of defined numbers
    only and agree with the real run. *)
Theorem C08_predict_rank_total : forall (Phi Phiinv : R -> R) (beta : R) (teams : list (list (rating R))),
  0 < beta -> (2 <= length teams)%nat -> Forall (fun t => t <> []) teams ->
  predict_rank (H := CNum Phi Phiinv) (Some beta) (lift_game teams)
  = map (fun rp => (fst rp, Some (snd rp))) (predict_rank (H := RNum Phi Phiinv) beta teams).
Proof. exact C08L.C_predict_rank. Qed.
Print Assumptions C08_predict_rank_total.

Example C08_predict_rank_total_ex : forall Phi Phiinv : R -> R,
  let g := [[mkRating 25 8 0%Z NmNone]; [mkRating 30 0 1%Z NmNone]] in
  predict_rank (H := CNum Phi Phiinv) (Some 4) (lift_game g)
  = map (fun rp => (fst rp, Some (snd rp))) (predict_rank (H := RNum Phi Phiinv) 4 g).
Proof.
  intros. apply C08_predict_rank_total; [lra | apply le_n | repeat constructor; discriminate].
Qed.

(** ** rate

    Domain: beta > 0, kappa > 0, >= 2 teams, non-empty teams, [sigma^2 + tau^2 > 0] for every
    player (sigma = 0 is allowed when tau <> 0), teams of at most 16 players and
    |mu| <= 20 beta (these two bounds are what keeps the arguments of [exp] below [EXPMAX]:
    |team mu| <= 320 beta, [c >= sqrt 2 beta] as there are >= 2 teams, so
    [mu_i / c <= 320 / sqrt 2 < 227] (PL) and [(mu_q - mu_i) / c_iq <= 640 / sqrt 2 < 454]
    (BT); the proof uses the lower bound 1.41 beta for [c] and [c_iq], 1.41^2 < 2), rank keys (if any) one per team.  NOT needed, and
    therefore not assumed: sigma >= 0, tau >= 0, sigma <= 10 beta, kappa <= 1e-2.

    Guards discharged: [sqrt (sigma^2 + tau^2)]; division by the team's [sigma^2 > 0];
    [sqrt (max (1 - share * delta, kappa))] with [max >= kappa > 0]; division by
    [c, c_iq, 2 c_iq >= 1.41 beta > 0] and by [c^2]; [exp] below the overflow threshold;
    division by [1 + exp > 0], by [sum_q > 0] (a non-empty sum of exponentials), by
    [A_q >= 1]; in [v w vt wt]: [sqrt 2], [sqrt tau] (math.tau), [exp (-x^2/2)] (argument
    <= 0), and division by [cdf >= 2^-52] resp. by the window mass [>= 1e-5], [>= 2^-52]
    on the exact branches (the code's own epsilon tests).

    General form: any kind, any gamma callback whose checked version simulates its real
    version on defined arguments (true of the default gamma and of constants). *)
Theorem C08_rate_total : forall (Phi Phiinv : R -> R) (k : kind) (beta kappa tau : R)
    (gC : gamma_fn (option R)) (gR : gamma_fn R) (limit : bool)
    (teams : list (list (rating R))) (keys : option (list key)),
  (forall c n mu ss team rank, 0 < c -> 0 <= ss ->
     gC (Some c) n (Some mu) (Some ss) (lift_team team) rank = Some (gR c n mu ss team rank)) ->
  0 < beta -> 0 < kappa ->
  (2 <= length teams)%nat -> Forall (fun t => t <> []) teams ->
  Forall (Forall (fun p => 0 < r_sigma p * r_sigma p + tau * tau)) teams ->
  Forall (fun t => (length t <= 16)%nat /\ Forall (fun p => Rabs (r_mu p) <= 20 * beta) t) teams ->
  match keys with Some ks => length ks = length teams | None => True end ->
  rate_core (H := CNum Phi Phiinv) k (mkParams (Some beta) (Some kappa) gC) (Some tau) limit (lift_game teams) keys
  = lift_game (rate_core (H := RNum Phi Phiinv) k (mkParams beta kappa gR) tau limit teams keys).
Proof. intros; apply C08L.C_rate_core; auto. Qed.
Print Assumptions C08_rate_total.

Example C08_rate_total_ex : forall Phi Phiinv : R -> R,
  let g := [[mkRating 25 (25/3) 0%Z NmNone; mkRating (-80) 40 1%Z NmNone]; [mkRating 30 0 2%Z NmNone];
            [mkRating 0 1 3%Z NmNone]] in
  let P := mkParams (Some (25/6)) (Some (1/10000)) (fun _ _ _ _ _ _ => Some 1) in
  let P' := mkParams (25/6) (1/10000) (fun _ _ _ _ _ _ => 1) in
  rate_core (H := CNum Phi Phiinv) BTP P (Some (1/12)) false (lift_game g) None
  = lift_game (rate_core (H := RNum Phi Phiinv) BTP P' (1/12) false g None).
Proof.
  intros. apply C08_rate_total; try lra; try reflexivity.
  - apply le_S, le_n.
  - repeat constructor; discriminate.
  - repeat constructor; cbn; lra.
  - repeat constructor; cbn; try lia; unfold Rabs; destruct (Rcase_abs _); lra.
Qed.

(** the default gamma [sqrt (team sigma^2) / c] qualifies *)
Theorem C08_gamma_default_ok : forall (Phi Phiinv : R -> R) c (n : nat) mu ss (team : list (rating R)) (rank : nat),
  0 < c -> 0 <= ss ->
  gamma_default (H := CNum Phi Phiinv) (Some c) n (Some mu) (Some ss) (lift_team team) rank
  = Some (gamma_default (H := RNum Phi Phiinv) c n mu ss team rank).
Proof. exact C08L.gamma_default_sim. Qed.
Print Assumptions C08_gamma_default_ok.

(** Plackett-Luce, default gamma *)
Theorem C08_rate_total_PL : forall (Phi Phiinv : R -> R) (beta kappa tau : R) (limit : bool)
    (teams : list (list (rating R))) (keys : option (list key)),
  0 < beta -> 0 < kappa ->
  (2 <= length teams)%nat -> Forall (fun t => t <> []) teams ->
  Forall (Forall (fun p => 0 < r_sigma p * r_sigma p + tau * tau)) teams ->
  Forall (fun t => (length t <= 16)%nat /\ Forall (fun p => Rabs (r_mu p) <= 20 * beta) t) teams ->
  match keys with Some ks => length ks = length teams | None => True end ->
  rate_core (H := CNum Phi Phiinv) PL (mkParams (Some beta) (Some kappa) (gamma_default (H := CNum Phi Phiinv)))
            (Some tau) limit (lift_game teams) keys
  = lift_game (rate_core (H := RNum Phi Phiinv) PL (mkParams beta kappa (gamma_default (H := RNum Phi Phiinv)))
                         tau limit teams keys).
Proof. intros; apply C08L.C_rate_core; auto using C08L.gamma_default_sim. Qed.
Print Assumptions C08_rate_total_PL.

Example C08_rate_total_PL_ex : forall Phi Phiinv : R -> R,
  let g := [[mkRating 25 (25/3) 0%Z NmNone; mkRating (-80) 40 1%Z NmNone]; [mkRating 30 0 2%Z NmNone]] in
  let P := mkParams (Some (25/6)) (Some (1/10000)) (gamma_default (H := CNum Phi Phiinv)) in
  let P' := mkParams (25/6) (1/10000) (gamma_default (H := RNum Phi Phiinv)) in
  rate_core (H := CNum Phi Phiinv) PL P (Some (25/300)) true (lift_game g) (Some [(2, 0); (1, 0)]%Z)
  = lift_game (rate_core (H := RNum Phi Phiinv) PL P' (25/300) true g (Some [(2, 0); (1, 0)]%Z)).
Proof.
  intros. apply C08_rate_total_PL; try lra; try reflexivity.
  - repeat constructor; discriminate.
  - repeat constructor; cbn; lra.
  - repeat constructor; cbn; try lia; unfold Rabs; destruct (Rcase_abs _); lra.
Qed.

(** Bradley-Terry full pairing, default gamma (for the dead helper calls of the Python code see [C08_dead_helpers_total]) *)
Theorem C08_rate_total_BTF : forall (Phi Phiinv : R -> R) (beta kappa tau : R) (limit : bool)
    (teams : list (list (rating R))) (keys : option (list key)),
  0 < beta -> 0 < kappa ->
  (2 <= length teams)%nat -> Forall (fun t => t <> []) teams ->
  Forall (Forall (fun p => 0 < r_sigma p * r_sigma p + tau * tau)) teams ->
  Forall (fun t => (length t <= 16)%nat /\ Forall (fun p => Rabs (r_mu p) <= 20 * beta) t) teams ->
  match keys with Some ks => length ks = length teams | None => True end ->
  rate_core (H := CNum Phi Phiinv) BTF (mkParams (Some beta) (Some kappa) (gamma_default (H := CNum Phi Phiinv)))
            (Some tau) limit (lift_game teams) keys
  = lift_game (rate_core (H := RNum Phi Phiinv) BTF (mkParams beta kappa (gamma_default (H := RNum Phi Phiinv)))
                         tau limit teams keys).
Proof. intros; apply C08L.C_rate_core; auto using C08L.gamma_default_sim. Qed.
Print Assumptions C08_rate_total_BTF.

Example C08_rate_total_BTF_ex : forall Phi Phiinv : R -> R,
  let g := [[mkRating 25 (25/3) 0%Z NmNone; mkRating (-80) 40 1%Z NmNone]; [mkRating 30 0 2%Z NmNone]] in
  let P := mkParams (Some (25/6)) (Some (1/10000)) (gamma_default (H := CNum Phi Phiinv)) in
  let P' := mkParams (25/6) (1/10000) (gamma_default (H := RNum Phi Phiinv)) in
  rate_core (H := CNum Phi Phiinv) BTF P (Some (25/300)) true (lift_game g) (Some [(2, 0); (1, 0)]%Z)
  = lift_game (rate_core (H := RNum Phi Phiinv) BTF P' (25/300) true g (Some [(2, 0); (1, 0)]%Z)).
Proof.
  intros. apply C08_rate_total_BTF; try lra; try reflexivity.
  - repeat constructor; discriminate.
  - repeat constructor; cbn; lra.
  - repeat constructor; cbn; try lia; unfold Rabs; destruct (Rcase_abs _); lra.
Qed.

(** Bradley-Terry partial pairing, default gamma *)
Theorem C08_rate_total_BTP : forall (Phi Phiinv : R -> R) (beta kappa tau : R) (limit : bool)
    (teams : list (list (rating R))) (keys : option (list key)),
  0 < beta -> 0 < kappa ->
  (2 <= length teams)%nat -> Forall (fun t => t <> []) teams ->
  Forall (Forall (fun p => 0 < r_sigma p * r_sigma p + tau * tau)) teams ->
  Forall (fun t => (length t <= 16)%nat /\ Forall (fun p => Rabs (r_mu p) <= 20 * beta) t) teams ->
  match keys with Some ks => length ks = length teams | None => True end ->
  rate_core (H := CNum Phi Phiinv) BTP (mkParams (Some beta) (Some kappa) (gamma_default (H := CNum Phi Phiinv)))
            (Some tau) limit (lift_game teams) keys
  = lift_game (rate_core (H := RNum Phi Phiinv) BTP (mkParams beta kappa (gamma_default (H := RNum Phi Phiinv)))
                         tau limit teams keys).
Proof. intros; apply C08L.C_rate_core; auto using C08L.gamma_default_sim. Qed.
Print Assumptions C08_rate_total_BTP.

Example C08_rate_total_BTP_ex : forall Phi Phiinv : R -> R,
  let g := [[mkRating 25 (25/3) 0%Z NmNone; mkRating (-80) 40 1%Z NmNone]; [mkRating 30 0 2%Z NmNone]] in
  let P := mkParams (Some (25/6)) (Some (1/10000)) (gamma_default (H := CNum Phi Phiinv)) in
  let P' := mkParams (25/6) (1/10000) (gamma_default (H := RNum Phi Phiinv)) in
  rate_core (H := CNum Phi Phiinv) BTP P (Some (25/300)) true (lift_game g) (Some [(2, 0); (1, 0)]%Z)
  = lift_game (rate_core (H := RNum Phi Phiinv) BTP P' (25/300) true g (Some [(2, 0); (1, 0)]%Z)).
Proof.
  intros. apply C08_rate_total_BTP; try lra; try reflexivity.
  - repeat constructor; discriminate.
  - repeat constructor; cbn; lra.
  - repeat constructor; cbn; try lia; unfold Rabs; destruct (Rcase_abs _); lra.
Qed.

(** Thurstone-Mosteller full pairing, default gamma (the bounds on team size and mu are not needed by the model's update rule, see [C08_rate_total_TM_unbounded]; they are needed by the dead [_sum_q] call of the Python code, see [C08_dead_helpers_total]) *)
Theorem C08_rate_total_TMF : forall (Phi Phiinv : R -> R) (beta kappa tau : R) (limit : bool)
    (teams : list (list (rating R))) (keys : option (list key)),
  0 < beta -> 0 < kappa ->
  (2 <= length teams)%nat -> Forall (fun t => t <> []) teams ->
  Forall (Forall (fun p => 0 < r_sigma p * r_sigma p + tau * tau)) teams ->
  Forall (fun t => (length t <= 16)%nat /\ Forall (fun p => Rabs (r_mu p) <= 20 * beta) t) teams ->
  match keys with Some ks => length ks = length teams | None => True end ->
  rate_core (H := CNum Phi Phiinv) TMF (mkParams (Some beta) (Some kappa) (gamma_default (H := CNum Phi Phiinv)))
            (Some tau) limit (lift_game teams) keys
  = lift_game (rate_core (H := RNum Phi Phiinv) TMF (mkParams beta kappa (gamma_default (H := RNum Phi Phiinv)))
                         tau limit teams keys).
Proof. intros; apply C08L.C_rate_core; auto using C08L.gamma_default_sim. Qed.
Print Assumptions C08_rate_total_TMF.

Example C08_rate_total_TMF_ex : forall Phi Phiinv : R -> R,
  let g := [[mkRating 25 (25/3) 0%Z NmNone; mkRating (-80) 40 1%Z NmNone]; [mkRating 30 0 2%Z NmNone]] in
  let P := mkParams (Some (25/6)) (Some (1/10000)) (gamma_default (H := CNum Phi Phiinv)) in
  let P' := mkParams (25/6) (1/10000) (gamma_default (H := RNum Phi Phiinv)) in
  rate_core (H := CNum Phi Phiinv) TMF P (Some (25/300)) true (lift_game g) (Some [(2, 0); (1, 0)]%Z)
  = lift_game (rate_core (H := RNum Phi Phiinv) TMF P' (25/300) true g (Some [(2, 0); (1, 0)]%Z)).
Proof.
  intros. apply C08_rate_total_TMF; try lra; try reflexivity.
  - repeat constructor; discriminate.
  - repeat constructor; cbn; lra.
  - repeat constructor; cbn; try lia; unfold Rabs; destruct (Rcase_abs _); lra.
Qed.

(** Thurstone-Mosteller partial pairing, default gamma *)
Theorem C08_rate_total_TMP : forall (Phi Phiinv : R -> R) (beta kappa tau : R) (limit : bool)
    (teams : list (list (rating R))) (keys : option (list key)),
  0 < beta -> 0 < kappa ->
  (2 <= length teams)%nat -> Forall (fun t => t <> []) teams ->
  Forall (Forall (fun p => 0 < r_sigma p * r_sigma p + tau * tau)) teams ->
  Forall (fun t => (length t <= 16)%nat /\ Forall (fun p => Rabs (r_mu p) <= 20 * beta) t) teams ->
  match keys with Some ks => length ks = length teams | None => True end ->
  rate_core (H := CNum Phi Phiinv) TMP (mkParams (Some beta) (Some kappa) (gamma_default (H := CNum Phi Phiinv)))
            (Some tau) limit (lift_game teams) keys
  = lift_game (rate_core (H := RNum Phi Phiinv) TMP (mkParams beta kappa (gamma_default (H := RNum Phi Phiinv)))
                         tau limit teams keys).
Proof. intros; apply C08L.C_rate_core; auto using C08L.gamma_default_sim. Qed.
Print Assumptions C08_rate_total_TMP.

Example C08_rate_total_TMP_ex : forall Phi Phiinv : R -> R,
  let g := [[mkRating 25 (25/3) 0%Z NmNone; mkRating (-80) 40 1%Z NmNone]; [mkRating 30 0 2%Z NmNone]] in
  let P := mkParams (Some (25/6)) (Some (1/10000)) (gamma_default (H := CNum Phi Phiinv)) in
  let P' := mkParams (25/6) (1/10000) (gamma_default (H := RNum Phi Phiinv)) in
  rate_core (H := CNum Phi Phiinv) TMP P (Some (25/300)) true (lift_game g) (Some [(2, 0); (1, 0)]%Z)
  = lift_game (rate_core (H := RNum Phi Phiinv) TMP P' (25/300) true g (Some [(2, 0); (1, 0)]%Z)).
Proof.
  intros. apply C08_rate_total_TMP; try lra; try reflexivity.
  - repeat constructor; discriminate.
  - repeat constructor; cbn; lra.
  - repeat constructor; cbn; try lia; unfold Rabs; destruct (Rcase_abs _); lra.
Qed.

(** Thurstone-Mosteller, as modelled, needs no bound on mu or team size: every [exp] has
    a non-positive argument and the truncated-Gaussian corrections divide only by quantities
    their own epsilon tests bound below. *)
Theorem C08_rate_total_TM_unbounded : forall (Phi Phiinv : R -> R) (k : kind) (beta kappa tau : R) (limit : bool)
    (teams : list (list (rating R))) (keys : option (list key)),
  k = TMF \/ k = TMP ->
  0 < beta -> 0 < kappa ->
  (2 <= length teams)%nat -> Forall (fun t => t <> []) teams ->
  Forall (Forall (fun p => 0 < r_sigma p * r_sigma p + tau * tau)) teams ->
  match keys with Some ks => length ks = length teams | None => True end ->
  rate_core (H := CNum Phi Phiinv) k (mkParams (Some beta) (Some kappa) (gamma_default (H := CNum Phi Phiinv)))
            (Some tau) limit (lift_game teams) keys
  = lift_game (rate_core (H := RNum Phi Phiinv) k (mkParams beta kappa (gamma_default (H := RNum Phi Phiinv)))
                         tau limit teams keys).
Proof. intros; apply C08L.C_rate_core; auto using C08L.gamma_default_sim; tauto. Qed.
Print Assumptions C08_rate_total_TM_unbounded.

Example C08_rate_total_TM_unbounded_ex : forall Phi Phiinv : R -> R,
  let g := [[mkRating 1000000000 (25/3) 0%Z NmNone]; [mkRating (-1000000000) 0 1%Z NmNone]] in
  let P := mkParams (Some (25/6)) (Some (1/10000)) (gamma_default (H := CNum Phi Phiinv)) in
  let P' := mkParams (25/6) (1/10000) (gamma_default (H := RNum Phi Phiinv)) in
  rate_core (H := CNum Phi Phiinv) TMF P (Some (25/300)) true (lift_game g) None
  = lift_game (rate_core (H := RNum Phi Phiinv) TMF P' (25/300) true g None).
Proof.
  intros. apply C08_rate_total_TM_unbounded; try lra; try reflexivity.
  - now left.
  - repeat constructor; discriminate.
  - repeat constructor; cbn; lra.
Qed.

(** The BTF and TMF Python [_compute] also evaluate [c = self._c(...)],
    [sum_q = self._sum_q(..., c)], [a = self._a(...)] and never use them; the Coq model of
    these two kinds omits the dead calls.  They are the Plackett-Luce helpers ([pl_c],
    [pl_sum_q], [pl_a]); on the bounded domain they do not raise either, for the team
    ratings of any game of the domain under any rank assignment (the game that [rate]
    hands to [_compute] is the tau-inflated input sorted by rank: a permutation of the teams,
    and every hypothesis below is permutation-invariant). *)
Theorem C08_dead_helpers_total : forall (Phi Phiinv : R -> R) (beta kappa tau : R)
    (gC : gamma_fn (option R)) (gR : gamma_fn R) (teams : list (list (rating R))) (ranks : list nat),
  0 < beta ->
  (2 <= length teams)%nat -> length ranks = length teams -> Forall (fun t => t <> []) teams ->
  Forall (Forall (fun p => 0 < r_sigma p * r_sigma p + tau * tau)) teams ->
  Forall (fun t => (length t <= 16)%nat /\ Forall (fun p => Rabs (r_mu p) <= 20 * beta) t) teams ->
  let g := map (map (inflate (H := RNum Phi Phiinv) tau)) teams in
  let trs := team_ratings (H := RNum Phi Phiinv) g ranks in
  let trsC := team_ratings (H := CNum Phi Phiinv) (lift_game g) ranks in
  let c := pl_c (H := RNum Phi Phiinv) (mkParams beta kappa gR) trs in
  pl_c (H := CNum Phi Phiinv) (mkParams (Some beta) (Some kappa) gC) trsC = Some c
  /\ pl_sum_q (H := CNum Phi Phiinv) trsC (Some c) = map Some (pl_sum_q (H := RNum Phi Phiinv) trs c)
  /\ pl_a trsC = pl_a trs.
Proof. intros; apply C08L.C_dead_helpers; auto. Qed.
Print Assumptions C08_dead_helpers_total.

Example C08_dead_helpers_total_ex : forall Phi Phiinv : R -> R,
  let teams := [[mkRating 25 (25/3) 0%Z NmNone; mkRating (-80) 40 1%Z NmNone]; [mkRating 30 0 2%Z NmNone]] in
  let g := map (map (inflate (H := RNum Phi Phiinv) (25/300))) teams in
  let trs := team_ratings (H := RNum Phi Phiinv) g [0; 1]%nat in
  let trsC := team_ratings (H := CNum Phi Phiinv) (lift_game g) [0; 1]%nat in
  let c := pl_c (H := RNum Phi Phiinv) (mkParams (25/6) (1/10000) (gamma_default (H := RNum Phi Phiinv))) trs in
  pl_c (H := CNum Phi Phiinv) (mkParams (Some (25/6)) (Some (1/10000)) (gamma_default (H := CNum Phi Phiinv))) trsC = Some c
  /\ pl_sum_q (H := CNum Phi Phiinv) trsC (Some c) = map Some (pl_sum_q (H := RNum Phi Phiinv) trs c)
  /\ pl_a trsC = pl_a trs.
Proof.
  intros. apply C08_dead_helpers_total; try lra; try reflexivity.
  - repeat constructor; discriminate.
  - repeat constructor; cbn; lra.
  - repeat constructor; cbn; try lia; unfold Rabs; destruct (Rcase_abs _); lra.
Qed.

(** ** Reading "equals the lifted real result" as "no exception, all numbers finite" *)
Theorem C08_lifted_finite : forall (Phi Phiinv : R -> R),
  (forall l : list R, Forall (fun o => ffinite (Num := CNum Phi Phiinv) o = true) (map Some l))
  /\ (forall g : list (list (rating R)),
        Forall (Forall (fun r => (exists m, r_mu r = Some m) /\ (exists s, r_sigma r = Some s)
                              /\ ffinite (Num := CNum Phi Phiinv) (r_mu r) = true
                              /\ ffinite (Num := CNum Phi Phiinv) (r_sigma r) = true)) (lift_game g)).
Proof. exact C08L.lifted_finite. Qed.
Print Assumptions C08_lifted_finite.

(** ** The exception tracking is not vacuous: the guards are sharp, and outside the
    domain the checked model does raise. *)
Theorem C08_guards_sharp : forall (Phi Phiinv : R -> R) (a : R),
  fdiv (Num := CNum Phi Phiinv) (Some a) (Some 0) = None
  /\ (a < 0 -> fsqrt (Num := CNum Phi Phiinv) (Some a) = None)
  /\ (EXPMAX < a -> fexp (Num := CNum Phi Phiinv) (Some a) = None)
  /\ (a <= 0 \/ 1 <= a -> ficdf (Num := CNum Phi Phiinv) (Some a) = None)
  /\ fadd (Num := CNum Phi Phiinv) None (Some a) = None
  /\ fltb (Num := CNum Phi Phiinv) None (Some a) = false
  /\ ffinite (Num := CNum Phi Phiinv) None = false.
Proof. exact C08L.guards_sharp. Qed.
Print Assumptions C08_guards_sharp.

(** beta = 0 and sigma = 0: predict_win raises (Python: ZeroDivisionError) *)
Theorem C08_out_of_domain_predict_win_raises : forall (Phi Phiinv : R -> R) (m1 m2 : R),
  predict_win (H := CNum Phi Phiinv) (Some 0) (lift_game [[mkRating m1 0 0%Z NmNone]; [mkRating m2 0 1%Z NmNone]])
  = [None; None].
Proof. exact C08L.C_predict_win_raises. Qed.
Print Assumptions C08_out_of_domain_predict_win_raises.

(** sigma = 0 (and no tau inflation): the per-player update of rate divides by the team's
    sigma^2 = 0 (Python: ZeroDivisionError) *)
Theorem C08_out_of_domain_update_raises : forall (Phi Phiinv : R -> R) (beta kappa : R)
    (gC : gamma_fn (option R)) (omega delta m : R),
  let p := mkRating m 0 0%Z NmNone in
  let ti := team_rating (H := CNum Phi Phiinv) (lift_team [p]) 0 in
  r_mu (update_player (H := CNum Phi Phiinv) (mkParams (Some beta) (Some kappa) gC) ti (Some omega) (Some delta)
          (lift_rating p)) = None.
Proof. exact C08L.C_update_player_raises. Qed.
Print Assumptions C08_out_of_domain_update_raises.

(** ** IEEE 754 binary64: every divisor is a non-zero double, every [sqrt] argument a
    non-negative double (no ZeroDivisionError, no ValueError), on the very doubles computed.

    The theorems above run the model on [option R]; those below run it on Flocq's binary64 with
    the IEEE 754 round-to-nearest-even operations ([FloatInst.B64Num exp64 erfc64 pow64 icdf64];
    the libm functions are parameters, what is needed about them is a hypothesis) and state,
    with no rounding slack, that each divisor the model computes is a strictly positive (resp.
    non-zero) finite double and each argument of [math.sqrt] a non-negative finite double.
    "is_finite ... = true" premises = no overflow of the named sum (an overflow is either an
    OverflowError of [x ** 2] / [math.exp] or a silent infinity; both stay with the run-time
    monitors).  Why it holds: rounding is monotone and doubles are its fixed points, so
    fl(a + b) >= b for a >= 0, fl(2 b) >= b, fl(n b) >= b for n >= 1, b >= 0; the correctly
    rounded square root of a positive double is a double >= 2^-537; a float sum of non-negative
    doubles is >= each summand; an int between 1 and 2^53 converts to a double >= 1.

    Divisors covered, by model term:
    - [C08_bt_divisors_nonzero_binary64]: [bt_term]: [c = c_iq P ti tq] (in [(mu_q - mu_i) / c],
      [sigma_i^2 / c], [(g * s2c) / c], and [gamma_default]'s [sqrt(sigma_i^2) / c]) and the
      logistic denominator [1 + exp(..)];
    - [C08_tm_scale_positive_binary64]: [tm_term]: [c = c_iq] (full) or [2 * c_iq] (partial);
      [C08_tm_guarded_divisors_binary64]: the divisors inside [v], [vt], [wt] (a CDF value, resp.
      a difference of two), used only in the branch where the code's test [d < epsilon]
      (resp. [d < 1e-5]) is false;
    - [C08_pl_divisors_nonzero_binary64]: [compute_pl]: [c = pl_c P trs] (in [mu / c],
      [sigma^2 / c], [gamma_default]), [c ** 2], every entry of [pl_sum_q] and of [pl_a];
    - [C08_team_variance_binary64]: [t_ss] of [team_rating] (divisor of [update_player]'s share
      [sigma^2 / t_ss]; argument of [sqrt] in [gamma_default]);
    - [C08_predict_divisors_nonzero_binary64]: [pair_scale], [half_pairs n], the denominator of
      [predict_draw], the player count [np] of [draw_margin] ([1 / np]);
    - [C08_constants_nonzero_binary64]: [sqrt 2] (cdf), [-2], [sqrt tau] (pdf), [2]
      (half_pairs, draw_margin), 3, 6, 300 (default sigma, beta, tau);
    - [C08_sqrt_arguments_nonneg_binary64]: the radicands of [c_iq], [pl_c], [pair_scale],
      [inflate], [update_player], [draw_margin], [gamma_default], and the constants 2, tau;
    - [C08_icdf_argument_binary64]: the argument of [inv_cdf] in [draw_margin] is in [1/2, 3/4].
    Nothing was found false. *)
From Flocq Require Core.Raux Core.Zaux.
From Flocq Require Import IEEE754.BinarySingleNaN IEEE754.Binary IEEE754.Bits.
From OSV Require Gauss.
From OSV Require Import FloatInst.
From OSV.Lemmas Require FloatOrderL FloatRangeL FloatDenomL.

(** Bradley-Terry: the scale [c_iq] is a finite double > 0 and [1 + e >= 1].  Premises: exp >= 0
    on finite arguments; team variances >= 0; [beta ** 2 > 0]; no overflow of the radicand, of
    the argument of exp, of [1 + e]. *)
Theorem C08_bt_divisors_nonzero_binary64 :
  forall (exp64 erfc64 pow64 icdf64 : binary64 -> binary64)
         (P : params binary64) (ti tq : trating binary64),
  (forall x : binary64, is_finite 53 1024 x = true -> 0 <= B2R 53 1024 (exp64 x)) ->
  0 <= B2R 53 1024 (t_ss ti) -> 0 <= B2R 53 1024 (t_ss tq) ->
  0 < B2R 53 1024 (@fpow2 binary64 (B64Num exp64 erfc64 pow64 icdf64) (p_beta P)) ->
  is_finite 53 1024
    (@fadd binary64 (B64Num exp64 erfc64 pow64 icdf64) (@fadd binary64 (B64Num exp64 erfc64 pow64 icdf64) (t_ss ti) (t_ss tq))
       (@fmul binary64 (B64Num exp64 erfc64 pow64 icdf64) (@ftwo binary64 (B64Num exp64 erfc64 pow64 icdf64)) (@fpow2 binary64 (B64Num exp64 erfc64 pow64 icdf64) (p_beta P)))) = true ->
  is_finite 53 1024
    (@fdiv binary64 (B64Num exp64 erfc64 pow64 icdf64) (@fsub binary64 (B64Num exp64 erfc64 pow64 icdf64) (t_mu tq) (t_mu ti)) (@c_iq binary64 (B64Num exp64 erfc64 pow64 icdf64) P ti tq)) = true ->
  is_finite 53 1024
    (@fadd binary64 (B64Num exp64 erfc64 pow64 icdf64) (@fone binary64 (B64Num exp64 erfc64 pow64 icdf64))
       (@fexp binary64 (B64Num exp64 erfc64 pow64 icdf64) (@fdiv binary64 (B64Num exp64 erfc64 pow64 icdf64) (@fsub binary64 (B64Num exp64 erfc64 pow64 icdf64) (t_mu tq) (t_mu ti))
                             (@c_iq binary64 (B64Num exp64 erfc64 pow64 icdf64) P ti tq)))) = true ->
  is_finite 53 1024 (@c_iq binary64 (B64Num exp64 erfc64 pow64 icdf64) P ti tq) = true
  /\ 0 < B2R 53 1024 (@c_iq binary64 (B64Num exp64 erfc64 pow64 icdf64) P ti tq)
  /\ 1 <= B2R 53 1024
            (@fadd binary64 (B64Num exp64 erfc64 pow64 icdf64) (@fone binary64 (B64Num exp64 erfc64 pow64 icdf64))
               (@fexp binary64 (B64Num exp64 erfc64 pow64 icdf64) (@fdiv binary64 (B64Num exp64 erfc64 pow64 icdf64) (@fsub binary64 (B64Num exp64 erfc64 pow64 icdf64) (t_mu tq) (t_mu ti))
                                     (@c_iq binary64 (B64Num exp64 erfc64 pow64 icdf64) P ti tq)))).
Proof. exact FloatDenomL.bt_divisors_b64. Qed.
Print Assumptions C08_bt_divisors_nonzero_binary64.

(** Non-vacuity: team aggregates (mu, sigma^2) = (25, 139) and (30, 50), beta = 25/6, stand-ins
    [exp := |x|] (non-negative), [x ** 2 := x * x].  Last conjunct: [0 < c_iq] checked by
    computation on the doubles. *)
Example C08_bt_divisors_nonzero_binary64_example :
  let N := B64Num b64_abs (fun x => x) (fun x => b64_mult mode_NE x x) (fun x => x) in
  let P := @mkParams binary64 (b64_of_bits 4616377268039232171) (b64_of_dyadic 1 (-13))
             (@gamma_default binary64 N) in
  let ti := @mkT binary64 (b64_of_Z 25) (b64_of_Z 139) [] 0 in
  let tq := @mkT binary64 (b64_of_Z 30) (b64_of_Z 50) [] 1 in
  (is_finite 53 1024 (@c_iq binary64 N P ti tq) = true
   /\ 0 < B2R 53 1024 (@c_iq binary64 N P ti tq)
   /\ 1 <= B2R 53 1024
             (@fadd binary64 N (@fone binary64 N)
                (@fexp binary64 N (@fdiv binary64 N (@fsub binary64 N (t_mu tq) (t_mu ti))
                                     (@c_iq binary64 N P ti tq)))))
  /\ b64_ltb (@fzero binary64 N) (@c_iq binary64 N P ti tq) = true.
Proof.
  intros N P ti tq. split; [|vm_compute; reflexivity].
  apply C08_bt_divisors_nonzero_binary64.
  - intros x _. change (0 <= B2R 53 1024 (Babs 53 1024 unop_nan_pl64 x)).
    rewrite B2R_Babs. apply Rabs_pos.
  - apply FloatOrderL.b64_sign_nonneg. vm_compute. reflexivity.
  - apply FloatOrderL.b64_sign_nonneg. vm_compute. reflexivity.
  - apply FloatOrderL.b64_sign_pos; vm_compute; reflexivity.
  - vm_compute. reflexivity.
  - vm_compute. reflexivity.
  - vm_compute. reflexivity.
Qed.

(** Thurstone-Mosteller: the scale of [tm_term], [c_iq] (full pairing) or [2 * c_iq] (partial
    pairing), is a finite double > 0 under the same premises. *)
Theorem C08_tm_scale_positive_binary64 :
  forall (exp64 erfc64 pow64 icdf64 : binary64 -> binary64)
         (P : params binary64) (ti tq : trating binary64),
  0 <= B2R 53 1024 (t_ss ti) -> 0 <= B2R 53 1024 (t_ss tq) ->
  0 < B2R 53 1024 (@fpow2 binary64 (B64Num exp64 erfc64 pow64 icdf64) (p_beta P)) ->
  is_finite 53 1024
    (@fadd binary64 (B64Num exp64 erfc64 pow64 icdf64) (@fadd binary64 (B64Num exp64 erfc64 pow64 icdf64) (t_ss ti) (t_ss tq))
       (@fmul binary64 (B64Num exp64 erfc64 pow64 icdf64) (@ftwo binary64 (B64Num exp64 erfc64 pow64 icdf64)) (@fpow2 binary64 (B64Num exp64 erfc64 pow64 icdf64) (p_beta P)))) = true ->
  is_finite 53 1024 (@c_iq binary64 (B64Num exp64 erfc64 pow64 icdf64) P ti tq) = true
  /\ 0 < B2R 53 1024 (@c_iq binary64 (B64Num exp64 erfc64 pow64 icdf64) P ti tq)
  /\ (is_finite 53 1024 (@fmul binary64 (B64Num exp64 erfc64 pow64 icdf64) (@ftwo binary64 (B64Num exp64 erfc64 pow64 icdf64)) (@c_iq binary64 (B64Num exp64 erfc64 pow64 icdf64) P ti tq)) = true ->
      0 < B2R 53 1024 (@fmul binary64 (B64Num exp64 erfc64 pow64 icdf64) (@ftwo binary64 (B64Num exp64 erfc64 pow64 icdf64)) (@c_iq binary64 (B64Num exp64 erfc64 pow64 icdf64) P ti tq))).
Proof. exact FloatDenomL.tm_scale_b64. Qed.
Print Assumptions C08_tm_scale_positive_binary64.

Example C08_tm_scale_positive_binary64_example :
  let N := B64Num b64_abs (fun x => x) (fun x => b64_mult mode_NE x x) (fun x => x) in
  let P := @mkParams binary64 (b64_of_bits 4616377268039232171) (b64_of_dyadic 1 (-13))
             (@gamma_default binary64 N) in
  let ti := @mkT binary64 (b64_of_Z 25) (b64_of_Z 139) [] 0 in
  let tq := @mkT binary64 (b64_of_Z 30) (b64_of_Z 50) [] 1 in
  0 < B2R 53 1024 (@c_iq binary64 N P ti tq)
  /\ 0 < B2R 53 1024 (@fmul binary64 N (@ftwo binary64 N) (@c_iq binary64 N P ti tq)).
Proof.
  intros N P ti tq.
  destruct (C08_tm_scale_positive_binary64 b64_abs (fun x => x) (fun x => b64_mult mode_NE x x) (fun x => x) P ti tq)
    as (_ & H1 & H2).
  - apply FloatOrderL.b64_sign_nonneg. vm_compute. reflexivity.
  - apply FloatOrderL.b64_sign_nonneg. vm_compute. reflexivity.
  - apply FloatOrderL.b64_sign_pos; vm_compute; reflexivity.
  - vm_compute. reflexivity.
  - split; [exact H1 | apply H2; vm_compute; reflexivity].
Qed.

(** the divisors inside the truncated-Gaussian corrections [v] (first conjunct: the CDF value
    [cdf (x - t)]), [vt] (second: the difference of two CDF values, tested against 1e-5) and [wt]
    (third: the same difference, tested against epsilon): in the branch that divides, the test
    [d < threshold] was false, hence the (finite) divisor is >= the threshold > 0. *)
Theorem C08_tm_guarded_divisors_binary64 :
  forall (exp64 erfc64 pow64 icdf64 : binary64 -> binary64) (x t : binary64),
  (is_finite 53 1024 (@Gauss.cdf binary64 (B64Num exp64 erfc64 pow64 icdf64) (@fsub binary64 (B64Num exp64 erfc64 pow64 icdf64) x t)) = true ->
   @fltb binary64 (B64Num exp64 erfc64 pow64 icdf64) (@Gauss.cdf binary64 (B64Num exp64 erfc64 pow64 icdf64) (@fsub binary64 (B64Num exp64 erfc64 pow64 icdf64) x t)) (@feps binary64 (B64Num exp64 erfc64 pow64 icdf64)) = false ->
   0 < B2R 53 1024 (@Gauss.cdf binary64 (B64Num exp64 erfc64 pow64 icdf64) (@fsub binary64 (B64Num exp64 erfc64 pow64 icdf64) x t)))
  /\ (is_finite 53 1024
        (@fsub binary64 (B64Num exp64 erfc64 pow64 icdf64) (@Gauss.cdf binary64 (B64Num exp64 erfc64 pow64 icdf64) (@fsub binary64 (B64Num exp64 erfc64 pow64 icdf64) t (@fabs binary64 (B64Num exp64 erfc64 pow64 icdf64) x)))
           (@Gauss.cdf binary64 (B64Num exp64 erfc64 pow64 icdf64) (@fsub binary64 (B64Num exp64 erfc64 pow64 icdf64) (@fneg binary64 (B64Num exp64 erfc64 pow64 icdf64) t) (@fabs binary64 (B64Num exp64 erfc64 pow64 icdf64) x)))) = true ->
      @fltb binary64 (B64Num exp64 erfc64 pow64 icdf64)
        (@fsub binary64 (B64Num exp64 erfc64 pow64 icdf64) (@Gauss.cdf binary64 (B64Num exp64 erfc64 pow64 icdf64) (@fsub binary64 (B64Num exp64 erfc64 pow64 icdf64) t (@fabs binary64 (B64Num exp64 erfc64 pow64 icdf64) x)))
           (@Gauss.cdf binary64 (B64Num exp64 erfc64 pow64 icdf64) (@fsub binary64 (B64Num exp64 erfc64 pow64 icdf64) (@fneg binary64 (B64Num exp64 erfc64 pow64 icdf64) t) (@fabs binary64 (B64Num exp64 erfc64 pow64 icdf64) x))))
        (@f1em5 binary64 (B64Num exp64 erfc64 pow64 icdf64)) = false ->
      0 < B2R 53 1024
            (@fsub binary64 (B64Num exp64 erfc64 pow64 icdf64) (@Gauss.cdf binary64 (B64Num exp64 erfc64 pow64 icdf64) (@fsub binary64 (B64Num exp64 erfc64 pow64 icdf64) t (@fabs binary64 (B64Num exp64 erfc64 pow64 icdf64) x)))
               (@Gauss.cdf binary64 (B64Num exp64 erfc64 pow64 icdf64) (@fsub binary64 (B64Num exp64 erfc64 pow64 icdf64) (@fneg binary64 (B64Num exp64 erfc64 pow64 icdf64) t) (@fabs binary64 (B64Num exp64 erfc64 pow64 icdf64) x)))))
  /\ (is_finite 53 1024
        (@fsub binary64 (B64Num exp64 erfc64 pow64 icdf64) (@Gauss.cdf binary64 (B64Num exp64 erfc64 pow64 icdf64) (@fsub binary64 (B64Num exp64 erfc64 pow64 icdf64) t (@fabs binary64 (B64Num exp64 erfc64 pow64 icdf64) x)))
           (@Gauss.cdf binary64 (B64Num exp64 erfc64 pow64 icdf64) (@fsub binary64 (B64Num exp64 erfc64 pow64 icdf64) (@fneg binary64 (B64Num exp64 erfc64 pow64 icdf64) t) (@fabs binary64 (B64Num exp64 erfc64 pow64 icdf64) x)))) = true ->
      @fltb binary64 (B64Num exp64 erfc64 pow64 icdf64)
        (@fsub binary64 (B64Num exp64 erfc64 pow64 icdf64) (@Gauss.cdf binary64 (B64Num exp64 erfc64 pow64 icdf64) (@fsub binary64 (B64Num exp64 erfc64 pow64 icdf64) t (@fabs binary64 (B64Num exp64 erfc64 pow64 icdf64) x)))
           (@Gauss.cdf binary64 (B64Num exp64 erfc64 pow64 icdf64) (@fsub binary64 (B64Num exp64 erfc64 pow64 icdf64) (@fneg binary64 (B64Num exp64 erfc64 pow64 icdf64) t) (@fabs binary64 (B64Num exp64 erfc64 pow64 icdf64) x))))
        (@feps binary64 (B64Num exp64 erfc64 pow64 icdf64)) = false ->
      0 < B2R 53 1024
            (@fsub binary64 (B64Num exp64 erfc64 pow64 icdf64) (@Gauss.cdf binary64 (B64Num exp64 erfc64 pow64 icdf64) (@fsub binary64 (B64Num exp64 erfc64 pow64 icdf64) t (@fabs binary64 (B64Num exp64 erfc64 pow64 icdf64) x)))
               (@Gauss.cdf binary64 (B64Num exp64 erfc64 pow64 icdf64) (@fsub binary64 (B64Num exp64 erfc64 pow64 icdf64) (@fneg binary64 (B64Num exp64 erfc64 pow64 icdf64) t) (@fabs binary64 (B64Num exp64 erfc64 pow64 icdf64) x))))).
Proof. exact FloatDenomL.tm_guarded_divisors_b64. Qed.
Print Assumptions C08_tm_guarded_divisors_binary64.

(** Non-vacuity, with the step-function stand-in for erfc of FloatRangeL (cdf = 1 / 0.5 / 0 on
    positive / zero / negative arguments) and t = 1.0: for x = 1.5 the test of [v] is false and
    cdf (x - t) = 1 > 0; for x = 0.5 the tests of [vt] and [wt] are false and the difference of
    CDF values is 1 > 0 — while [v] at x = 0.5 takes the guarded branch (its test is true). *)
Example C08_tm_guarded_divisors_binary64_example :
  let N := B64Num (fun x => x) FloatRangeL.ex_erfc (fun x => b64_mult mode_NE x x) (fun x => x) in
  let x1 := b64_of_dyadic 3 (-1) in
  let x2 := b64_of_dyadic 1 (-1) in
  let t := b64_of_Z 1 in
  0 < B2R 53 1024 (@Gauss.cdf binary64 N (@fsub binary64 N x1 t))
  /\ 0 < B2R 53 1024
           (@fsub binary64 N (@Gauss.cdf binary64 N (@fsub binary64 N t (@fabs binary64 N x2)))
              (@Gauss.cdf binary64 N (@fsub binary64 N (@fneg binary64 N t) (@fabs binary64 N x2))))
  /\ @fltb binary64 N (@Gauss.cdf binary64 N (@fsub binary64 N x2 t)) (@feps binary64 N) = true.
Proof.
  intros N x1 x2 t.
  destruct (C08_tm_guarded_divisors_binary64 (fun x => x) FloatRangeL.ex_erfc (fun x => b64_mult mode_NE x x) (fun x => x) x1 t)
    as (H1 & _).
  destruct (C08_tm_guarded_divisors_binary64 (fun x => x) FloatRangeL.ex_erfc (fun x => b64_mult mode_NE x x) (fun x => x) x2 t)
    as (_ & H2 & _).
  split; [apply H1; vm_compute; reflexivity|].
  split; [apply H2; vm_compute; reflexivity|].
  vm_compute. reflexivity.
Qed.

(** Plackett-Luce: [c = pl_c P trs] is a finite double > 0, [c ** 2 > 0], every entry of
    [pl_sum_q] is > 0 and every entry of [pl_a], converted to float, is a finite double >= 1.
    Premises: exp > 0 strictly on finite arguments; [x ** 2] does not underflow to zero when
    x >= 2^-537, i.e. when the exact square is >= 2^-1074, the smallest positive double (true of
    any faithful [pow]; needed because [c ** 2] is libm's, [c >= 2^-537] is proved); at least one
    team, at most 2^53; team variances >= 0; [beta ** 2 > 0]; no overflow of the radicand, of
    [c ** 2], of the arguments of exp, of the sums [sum_q]. *)
Theorem C08_pl_divisors_nonzero_binary64 :
  forall (exp64 erfc64 pow64 icdf64 : binary64 -> binary64)
         (P : params binary64) (trs : list (trating binary64)),
  (forall x : binary64, is_finite 53 1024 x = true -> 0 < B2R 53 1024 (exp64 x)) ->
  (forall x : binary64, is_finite 53 1024 (pow64 x) = true ->
     Raux.bpow Zaux.radix2 (-537) <= B2R 53 1024 x -> 0 < B2R 53 1024 (pow64 x)) ->
  trs <> [] -> (Z.of_nat (length trs) <= 9007199254740992)%Z ->
  (forall t : trating binary64, In t trs -> 0 <= B2R 53 1024 (t_ss t)) ->
  0 < B2R 53 1024 (@fpow2 binary64 (B64Num exp64 erfc64 pow64 icdf64) (p_beta P)) ->
  is_finite 53 1024
    (fold_left (fun acc t => @fadd binary64 (B64Num exp64 erfc64 pow64 icdf64) acc
                               (@fadd binary64 (B64Num exp64 erfc64 pow64 icdf64) (t_ss t) (@fpow2 binary64 (B64Num exp64 erfc64 pow64 icdf64) (p_beta P))))
       trs (@fzero binary64 (B64Num exp64 erfc64 pow64 icdf64))) = true ->
  is_finite 53 1024 (@fpow2 binary64 (B64Num exp64 erfc64 pow64 icdf64) (@pl_c binary64 (B64Num exp64 erfc64 pow64 icdf64) P trs)) = true ->
  (forall t : trating binary64, In t trs ->
     is_finite 53 1024 (@fdiv binary64 (B64Num exp64 erfc64 pow64 icdf64) (t_mu t) (@pl_c binary64 (B64Num exp64 erfc64 pow64 icdf64) P trs)) = true) ->
  (forall s : binary64, In s (@pl_sum_q binary64 (B64Num exp64 erfc64 pow64 icdf64) trs (@pl_c binary64 (B64Num exp64 erfc64 pow64 icdf64) P trs)) ->
     is_finite 53 1024 s = true) ->
  is_finite 53 1024 (@pl_c binary64 (B64Num exp64 erfc64 pow64 icdf64) P trs) = true
  /\ 0 < B2R 53 1024 (@pl_c binary64 (B64Num exp64 erfc64 pow64 icdf64) P trs)
  /\ 0 < B2R 53 1024 (@fpow2 binary64 (B64Num exp64 erfc64 pow64 icdf64) (@pl_c binary64 (B64Num exp64 erfc64 pow64 icdf64) P trs))
  /\ (forall s : binary64, In s (@pl_sum_q binary64 (B64Num exp64 erfc64 pow64 icdf64) trs (@pl_c binary64 (B64Num exp64 erfc64 pow64 icdf64) P trs)) ->
        0 < B2R 53 1024 s)
  /\ (forall a : nat, In a (@pl_a binary64 trs) ->
        is_finite 53 1024 (@fofZ binary64 (B64Num exp64 erfc64 pow64 icdf64) (Z.of_nat a)) = true
        /\ 1 <= B2R 53 1024 (@fofZ binary64 (B64Num exp64 erfc64 pow64 icdf64) (Z.of_nat a))).
Proof. exact FloatDenomL.pl_divisors_b64. Qed.
Print Assumptions C08_pl_divisors_nonzero_binary64.

(** Non-vacuity: three teams with aggregates (mu, sigma^2, rank) = (25, 139, 0), (30, 50, 1),
    (20, 200, 1), beta = 25/6; stand-ins [exp x := 0.5 if x < 0 else 2.0] (strictly positive),
    [x ** 2 := x * x] (satisfies the no-underflow premise: [FloatDenomL.b64_square_pos]). *)
Example C08_pl_divisors_nonzero_binary64_example :
  let ex64 := fun x : binary64 => if b64_ltb x (b64_of_Z 0) then b64_of_dyadic 1 (-1) else b64_of_Z 2 in
  let N := B64Num ex64 (fun x => x) (fun x => b64_mult mode_NE x x) (fun x => x) in
  let P := @mkParams binary64 (b64_of_bits 4616377268039232171) (b64_of_dyadic 1 (-13))
             (@gamma_default binary64 N) in
  let t0 := @mkT binary64 (b64_of_Z 25) (b64_of_Z 139) [] 0 in
  let t1 := @mkT binary64 (b64_of_Z 30) (b64_of_Z 50) [] 1 in
  let t2 := @mkT binary64 (b64_of_Z 20) (b64_of_Z 200) [] 1 in
  let trs := [t0; t1; t2] in
  is_finite 53 1024 (@pl_c binary64 N P trs) = true
  /\ 0 < B2R 53 1024 (@pl_c binary64 N P trs)
  /\ 0 < B2R 53 1024 (@fpow2 binary64 N (@pl_c binary64 N P trs))
  /\ (forall s : binary64, In s (@pl_sum_q binary64 N trs (@pl_c binary64 N P trs)) -> 0 < B2R 53 1024 s)
  /\ (forall a : nat, In a (@pl_a binary64 trs) ->
        is_finite 53 1024 (@fofZ binary64 N (Z.of_nat a)) = true
        /\ 1 <= B2R 53 1024 (@fofZ binary64 N (Z.of_nat a))).
Proof.
  intros ex64 N P t0 t1 t2 trs.
  apply C08_pl_divisors_nonzero_binary64.
  - intros x _. unfold ex64. destruct (b64_ltb x (b64_of_Z 0));
      apply FloatOrderL.b64_sign_pos; vm_compute; reflexivity.
  - intros x. apply FloatDenomL.b64_square_pos.
  - discriminate.
  - vm_compute. discriminate.
  - intros t [<-|[<-|[<-|[]]]]; apply FloatOrderL.b64_sign_nonneg; vm_compute; reflexivity.
  - apply FloatOrderL.b64_sign_pos; vm_compute; reflexivity.
  - vm_compute. reflexivity.
  - vm_compute. reflexivity.
  - intros t [<-|[<-|[<-|[]]]]; vm_compute; reflexivity.
  - intros s Hs. unfold pl_sum_q, trs in Hs. cbn [map In] in Hs.
    destruct Hs as [<-|[<-|[<-|[]]]]; vm_compute; reflexivity.
Qed.

(** the team variance [t_ss] computed by [team_rating] (the float sum of the members'
    [sigma ** 2]) is >= 0 when every [sigma ** 2] is, and > 0 as soon as one member has
    [sigma ** 2 > 0]; premise: the sum does not overflow. *)
Theorem C08_team_variance_binary64 :
  forall (exp64 erfc64 pow64 icdf64 : binary64 -> binary64) (team : list (rating binary64)) (rank : nat),
  (forall q : rating binary64, In q team -> 0 <= B2R 53 1024 (@fpow2 binary64 (B64Num exp64 erfc64 pow64 icdf64) (r_sigma q))) ->
  is_finite 53 1024 (t_ss (@team_rating binary64 (B64Num exp64 erfc64 pow64 icdf64) team rank)) = true ->
  0 <= B2R 53 1024 (t_ss (@team_rating binary64 (B64Num exp64 erfc64 pow64 icdf64) team rank))
  /\ (forall p : rating binary64, In p team -> 0 < B2R 53 1024 (@fpow2 binary64 (B64Num exp64 erfc64 pow64 icdf64) (r_sigma p)) ->
        0 < B2R 53 1024 (t_ss (@team_rating binary64 (B64Num exp64 erfc64 pow64 icdf64) team rank))).
Proof. exact FloatDenomL.team_ss_b64. Qed.
Print Assumptions C08_team_variance_binary64.

(** Non-vacuity: the team [(25.0, 25/3); (30.5, 0.0)] (one member with sigma = 0). *)
Example C08_team_variance_binary64_example :
  let N := B64Num (fun x => x) (fun x => x) (fun x => b64_mult mode_NE x x) (fun x => x) in
  let p1 := @mkRating binary64 (b64_of_bits 4627730092099895296) (b64_of_bits 4620880867666602667) 0%Z NmNone in
  let p2 := @mkRating binary64 (b64_of_bits 4629278204471803904) (b64_of_Z 0) 1%Z NmNone in
  0 < B2R 53 1024 (t_ss (@team_rating binary64 N [p1; p2] 0)).
Proof.
  intros N p1 p2.
  destruct (C08_team_variance_binary64 (fun x => x) (fun x => x) (fun x => b64_mult mode_NE x x) (fun x => x)
              [p1; p2] 0%nat) as (_ & H).
  - intros q [<-|[<-|[]]]; apply FloatOrderL.b64_sign_nonneg; vm_compute; reflexivity.
  - vm_compute. reflexivity.
  - apply (H p1); [left; reflexivity|]. apply FloatOrderL.b64_sign_pos; vm_compute; reflexivity.
Qed.

(** The predictions: for 2 <= n <= 2^20 teams with 1 <= N <= 2^53 players in all, every
    [sigma ** 2 >= 0] and [beta ** 2 > 0]: [pair_scale beta k (agg ta) (agg tb)] is a finite
    double > 0 for any two teams of the game and any count k >= 1 ([predict_win] on two teams
    passes k = the number of players, otherwise k = n) whose radicand does not overflow;
    [half_pairs n], the denominator of [predict_draw] and the player count are finite doubles
    >= 1. *)
Theorem C08_predict_divisors_nonzero_binary64 :
  forall (exp64 erfc64 pow64 icdf64 : binary64 -> binary64)
         (beta : binary64) (teams : list (list (rating binary64))),
  0 < B2R 53 1024 (@fpow2 binary64 (B64Num exp64 erfc64 pow64 icdf64) beta) ->
  (2 <= length teams)%nat -> (Z.of_nat (length teams) <= 2 ^ 20)%Z ->
  (1 <= nplayers teams)%nat -> (Z.of_nat (nplayers teams) <= 9007199254740992)%Z ->
  (forall (t : list (rating binary64)) (p : rating binary64), In t teams -> In p t ->
     0 <= B2R 53 1024 (@fpow2 binary64 (B64Num exp64 erfc64 pow64 icdf64) (r_sigma p))) ->
  (forall (k : nat) (ta tb : list (rating binary64)), (1 <= k)%nat -> In ta teams -> In tb teams ->
     is_finite 53 1024
       (@fadd binary64 (B64Num exp64 erfc64 pow64 icdf64)
          (@fadd binary64 (B64Num exp64 erfc64 pow64 icdf64) (@fmul binary64 (B64Num exp64 erfc64 pow64 icdf64) (@fofZ binary64 (B64Num exp64 erfc64 pow64 icdf64) (Z.of_nat k)) (@fpow2 binary64 (B64Num exp64 erfc64 pow64 icdf64) beta))
             (snd (@agg binary64 (B64Num exp64 erfc64 pow64 icdf64) ta))) (snd (@agg binary64 (B64Num exp64 erfc64 pow64 icdf64) tb))) = true ->
     is_finite 53 1024 (@pair_scale binary64 (B64Num exp64 erfc64 pow64 icdf64) beta k (@agg binary64 (B64Num exp64 erfc64 pow64 icdf64) ta) (@agg binary64 (B64Num exp64 erfc64 pow64 icdf64) tb)) = true
     /\ 0 < B2R 53 1024 (@pair_scale binary64 (B64Num exp64 erfc64 pow64 icdf64) beta k (@agg binary64 (B64Num exp64 erfc64 pow64 icdf64) ta) (@agg binary64 (B64Num exp64 erfc64 pow64 icdf64) tb)))
  /\ (is_finite 53 1024 (@half_pairs binary64 (B64Num exp64 erfc64 pow64 icdf64) (length teams)) = true
      /\ 1 <= B2R 53 1024 (@half_pairs binary64 (B64Num exp64 erfc64 pow64 icdf64) (length teams)))
  /\ (is_finite 53 1024
        (if Nat.ltb 2 (length teams)
         then @fofZ binary64 (B64Num exp64 erfc64 pow64 icdf64) (Z.of_nat (length teams * (length teams - 1)))
         else @fone binary64 (B64Num exp64 erfc64 pow64 icdf64)) = true
      /\ 1 <= B2R 53 1024
                (if Nat.ltb 2 (length teams)
                 then @fofZ binary64 (B64Num exp64 erfc64 pow64 icdf64) (Z.of_nat (length teams * (length teams - 1)))
                 else @fone binary64 (B64Num exp64 erfc64 pow64 icdf64)))
  /\ (is_finite 53 1024 (@fofZ binary64 (B64Num exp64 erfc64 pow64 icdf64) (Z.of_nat (nplayers teams))) = true
      /\ 1 <= B2R 53 1024 (@fofZ binary64 (B64Num exp64 erfc64 pow64 icdf64) (Z.of_nat (nplayers teams)))).
Proof. exact FloatDenomL.predict_divisors_b64. Qed.
Print Assumptions C08_predict_divisors_nonzero_binary64.

(** Non-vacuity: the game [[(25.0, 25/3); (30.5, 7.25)]; [(25.0, 25/3)]], beta = 25/6. *)
Example C08_predict_divisors_nonzero_binary64_example :
  let N := B64Num (fun x => x) (fun x => x) (fun x => b64_mult mode_NE x x) (fun x => x) in
  let p1 := @mkRating binary64 (b64_of_bits 4627730092099895296) (b64_of_bits 4620880867666602667) 0%Z NmNone in
  let p2 := @mkRating binary64 (b64_of_bits 4629278204471803904) (b64_of_bits 4619848792751996928) 1%Z NmNone in
  let beta := b64_of_bits 4616377268039232171 in
  let ta := [p1; p2] in let tb := [p1] in
  0 < B2R 53 1024 (@pair_scale binary64 N beta 3 (@agg binary64 N ta) (@agg binary64 N tb))
  /\ 1 <= B2R 53 1024 (@half_pairs binary64 N 2)
  /\ 1 <= B2R 53 1024 (@fofZ binary64 N (Z.of_nat (nplayers [ta; tb]))).
Proof.
  intros N p1 p2 beta ta tb.
  destruct (C08_predict_divisors_nonzero_binary64 (fun x => x) (fun x => x) (fun x => b64_mult mode_NE x x) (fun x => x)
              beta [ta; tb]) as (H1 & H2 & _ & H4).
  - apply FloatOrderL.b64_sign_pos; vm_compute; reflexivity.
  - apply le_n.
  - vm_compute. discriminate.
  - vm_compute. auto.
  - vm_compute. discriminate.
  - intros t p [<-|[<-|[]]] Hp.
    + destruct Hp as [<-|[<-|[]]]; apply FloatOrderL.b64_sign_nonneg; vm_compute; reflexivity.
    + destruct Hp as [<-|[]]; apply FloatOrderL.b64_sign_nonneg; vm_compute; reflexivity.
  - split; [|split; [exact (proj2 H2) | exact (proj2 H4)]].
    apply (H1 3%nat ta tb).
    + auto.
    + left. reflexivity.
    + right. left. reflexivity.
    + vm_compute. reflexivity.
Qed.

(** the constant divisors: 2.0, sqrt 2.0 (>= 1), -2.0, math.tau, sqrt(math.tau), 3.0, 6.0, 300.0 *)
Theorem C08_constants_nonzero_binary64 :
  forall (exp64 erfc64 pow64 icdf64 : binary64 -> binary64),
  0 < B2R 53 1024 (@ftwo binary64 (B64Num exp64 erfc64 pow64 icdf64))
  /\ 1 <= B2R 53 1024 (@fsqrt binary64 (B64Num exp64 erfc64 pow64 icdf64) (@ftwo binary64 (B64Num exp64 erfc64 pow64 icdf64)))
  /\ B2R 53 1024 (@fneg binary64 (B64Num exp64 erfc64 pow64 icdf64) (@ftwo binary64 (B64Num exp64 erfc64 pow64 icdf64))) < 0
  /\ 0 < B2R 53 1024 (@ftau binary64 (B64Num exp64 erfc64 pow64 icdf64))
  /\ 0 < B2R 53 1024 (@fsqrt binary64 (B64Num exp64 erfc64 pow64 icdf64) (@ftau binary64 (B64Num exp64 erfc64 pow64 icdf64)))
  /\ 0 < B2R 53 1024 (@fofZ binary64 (B64Num exp64 erfc64 pow64 icdf64) 3)
  /\ 0 < B2R 53 1024 (@fofZ binary64 (B64Num exp64 erfc64 pow64 icdf64) 6)
  /\ 0 < B2R 53 1024 (@fofZ binary64 (B64Num exp64 erfc64 pow64 icdf64) 300).
Proof. exact FloatDenomL.constants_b64. Qed.
Print Assumptions C08_constants_nonzero_binary64.

(** Every argument of [math.sqrt] is a non-negative (finite) double.  One conjunct per call
    site: the radicands of [c_iq], [pl_c], [pair_scale], [inflate] (no premise but finiteness:
    fl(s * s) >= 0), [update_player] (max(1 - share * delta, kappa) >= kappa >= 0), the player
    count of [draw_margin], the team variance (in [gamma_default]), the constants 2.0 and
    math.tau. *)
Theorem C08_sqrt_arguments_nonneg_binary64 :
  forall (exp64 erfc64 pow64 icdf64 : binary64 -> binary64),
  (forall (P : params binary64) (ti tq : trating binary64),
     0 <= B2R 53 1024 (t_ss ti) -> 0 <= B2R 53 1024 (t_ss tq) ->
     0 < B2R 53 1024 (@fpow2 binary64 (B64Num exp64 erfc64 pow64 icdf64) (p_beta P)) ->
     is_finite 53 1024
       (@fadd binary64 (B64Num exp64 erfc64 pow64 icdf64) (@fadd binary64 (B64Num exp64 erfc64 pow64 icdf64) (t_ss ti) (t_ss tq))
          (@fmul binary64 (B64Num exp64 erfc64 pow64 icdf64) (@ftwo binary64 (B64Num exp64 erfc64 pow64 icdf64)) (@fpow2 binary64 (B64Num exp64 erfc64 pow64 icdf64) (p_beta P)))) = true ->
     0 <= B2R 53 1024
            (@fadd binary64 (B64Num exp64 erfc64 pow64 icdf64) (@fadd binary64 (B64Num exp64 erfc64 pow64 icdf64) (t_ss ti) (t_ss tq))
               (@fmul binary64 (B64Num exp64 erfc64 pow64 icdf64) (@ftwo binary64 (B64Num exp64 erfc64 pow64 icdf64)) (@fpow2 binary64 (B64Num exp64 erfc64 pow64 icdf64) (p_beta P)))))
  /\ (forall (P : params binary64) (trs : list (trating binary64)),
     trs <> [] -> (forall t : trating binary64, In t trs -> 0 <= B2R 53 1024 (t_ss t)) ->
     0 < B2R 53 1024 (@fpow2 binary64 (B64Num exp64 erfc64 pow64 icdf64) (p_beta P)) ->
     is_finite 53 1024
       (fold_left (fun acc t => @fadd binary64 (B64Num exp64 erfc64 pow64 icdf64) acc
                                  (@fadd binary64 (B64Num exp64 erfc64 pow64 icdf64) (t_ss t) (@fpow2 binary64 (B64Num exp64 erfc64 pow64 icdf64) (p_beta P))))
          trs (@fzero binary64 (B64Num exp64 erfc64 pow64 icdf64))) = true ->
     0 <= B2R 53 1024
            (fold_left (fun acc t => @fadd binary64 (B64Num exp64 erfc64 pow64 icdf64) acc
                                       (@fadd binary64 (B64Num exp64 erfc64 pow64 icdf64) (t_ss t) (@fpow2 binary64 (B64Num exp64 erfc64 pow64 icdf64) (p_beta P))))
               trs (@fzero binary64 (B64Num exp64 erfc64 pow64 icdf64))))
  /\ (forall (beta : binary64) (n : nat) (a b : binary64 * binary64),
     (1 <= n)%nat -> 0 < B2R 53 1024 (@fpow2 binary64 (B64Num exp64 erfc64 pow64 icdf64) beta) ->
     0 <= B2R 53 1024 (snd a) -> 0 <= B2R 53 1024 (snd b) ->
     is_finite 53 1024
       (@fadd binary64 (B64Num exp64 erfc64 pow64 icdf64)
          (@fadd binary64 (B64Num exp64 erfc64 pow64 icdf64) (@fmul binary64 (B64Num exp64 erfc64 pow64 icdf64) (@fofZ binary64 (B64Num exp64 erfc64 pow64 icdf64) (Z.of_nat n)) (@fpow2 binary64 (B64Num exp64 erfc64 pow64 icdf64) beta))
             (snd a)) (snd b)) = true ->
     0 <= B2R 53 1024
            (@fadd binary64 (B64Num exp64 erfc64 pow64 icdf64)
               (@fadd binary64 (B64Num exp64 erfc64 pow64 icdf64) (@fmul binary64 (B64Num exp64 erfc64 pow64 icdf64) (@fofZ binary64 (B64Num exp64 erfc64 pow64 icdf64) (Z.of_nat n)) (@fpow2 binary64 (B64Num exp64 erfc64 pow64 icdf64) beta))
                  (snd a)) (snd b)))
  /\ (forall (tau : binary64) (r : rating binary64),
     is_finite 53 1024
       (@fadd binary64 (B64Num exp64 erfc64 pow64 icdf64) (@fmul binary64 (B64Num exp64 erfc64 pow64 icdf64) (r_sigma r) (r_sigma r)) (@fmul binary64 (B64Num exp64 erfc64 pow64 icdf64) tau tau)) = true ->
     0 <= B2R 53 1024
            (@fadd binary64 (B64Num exp64 erfc64 pow64 icdf64) (@fmul binary64 (B64Num exp64 erfc64 pow64 icdf64) (r_sigma r) (r_sigma r)) (@fmul binary64 (B64Num exp64 erfc64 pow64 icdf64) tau tau)))
  /\ (forall (P : params binary64) (ti : trating binary64) (delta : binary64) (p : rating binary64),
     is_finite 53 1024 (p_kappa P) = true -> 0 <= B2R 53 1024 (p_kappa P) ->
     is_finite 53 1024
       (@fsub binary64 (B64Num exp64 erfc64 pow64 icdf64) (@fone binary64 (B64Num exp64 erfc64 pow64 icdf64))
          (@fmul binary64 (B64Num exp64 erfc64 pow64 icdf64) (@fdiv binary64 (B64Num exp64 erfc64 pow64 icdf64) (@fpow2 binary64 (B64Num exp64 erfc64 pow64 icdf64) (r_sigma p)) (t_ss ti)) delta)) = true ->
     is_finite 53 1024
       (@fmax binary64 (B64Num exp64 erfc64 pow64 icdf64)
          (@fsub binary64 (B64Num exp64 erfc64 pow64 icdf64) (@fone binary64 (B64Num exp64 erfc64 pow64 icdf64))
             (@fmul binary64 (B64Num exp64 erfc64 pow64 icdf64) (@fdiv binary64 (B64Num exp64 erfc64 pow64 icdf64) (@fpow2 binary64 (B64Num exp64 erfc64 pow64 icdf64) (r_sigma p)) (t_ss ti)) delta))
          (p_kappa P)) = true
     /\ 0 <= B2R 53 1024
               (@fmax binary64 (B64Num exp64 erfc64 pow64 icdf64)
                  (@fsub binary64 (B64Num exp64 erfc64 pow64 icdf64) (@fone binary64 (B64Num exp64 erfc64 pow64 icdf64))
                     (@fmul binary64 (B64Num exp64 erfc64 pow64 icdf64) (@fdiv binary64 (B64Num exp64 erfc64 pow64 icdf64) (@fpow2 binary64 (B64Num exp64 erfc64 pow64 icdf64) (r_sigma p)) (t_ss ti)) delta))
                  (p_kappa P)))
  /\ (forall k : nat, (Z.of_nat k <= 9007199254740992)%Z ->
     is_finite 53 1024 (@fofZ binary64 (B64Num exp64 erfc64 pow64 icdf64) (Z.of_nat k)) = true
     /\ 0 <= B2R 53 1024 (@fofZ binary64 (B64Num exp64 erfc64 pow64 icdf64) (Z.of_nat k)))
  /\ (forall (team : list (rating binary64)) (rank : nat),
     (forall q : rating binary64, In q team -> 0 <= B2R 53 1024 (@fpow2 binary64 (B64Num exp64 erfc64 pow64 icdf64) (r_sigma q))) ->
     is_finite 53 1024 (t_ss (@team_rating binary64 (B64Num exp64 erfc64 pow64 icdf64) team rank)) = true ->
     0 <= B2R 53 1024 (t_ss (@team_rating binary64 (B64Num exp64 erfc64 pow64 icdf64) team rank)))
  /\ 0 <= B2R 53 1024 (@ftwo binary64 (B64Num exp64 erfc64 pow64 icdf64))
  /\ 0 <= B2R 53 1024 (@ftau binary64 (B64Num exp64 erfc64 pow64 icdf64)).
Proof. exact FloatDenomL.sqrt_arguments_b64. Qed.
Print Assumptions C08_sqrt_arguments_nonneg_binary64.

(** Non-vacuity of the conjuncts not already instantiated above (the radicands of [c_iq], [pl_c],
    [pair_scale] and the team variance have the premises of the examples above):
    [inflate] with sigma = 25/3, tau = 25/300 (the double nearest), and [update_player] with
    sigma = 25/3, team sigma^2 = 139.0, delta = 0.25, kappa = 2^-13; plus the player count 3. *)
Example C08_sqrt_arguments_nonneg_binary64_example :
  let N := B64Num (fun x => x) (fun x => x) (fun x => b64_mult mode_NE x x) (fun x => x) in
  let P := @mkParams binary64 (b64_of_bits 4616377268039232171) (b64_of_dyadic 1 (-13))
             (fun _ _ _ _ _ _ => b64_of_Z 1) in
  let p := @mkRating binary64 (b64_of_bits 4627730092099895296) (b64_of_bits 4620880867666602667) 0%Z NmNone in
  let ti := @mkT binary64 (b64_of_bits 4627730092099895296) (b64_of_Z 139) [p] 0 in
  let delta := b64_of_dyadic 1 (-2) in
  let tau := @fdiv binary64 N (b64_of_Z 25) (b64_of_Z 300) in
  0 <= B2R 53 1024 (@fadd binary64 N (@fmul binary64 N (r_sigma p) (r_sigma p)) (@fmul binary64 N tau tau))
  /\ 0 <= B2R 53 1024
            (@fmax binary64 N
               (@fsub binary64 N (@fone binary64 N)
                  (@fmul binary64 N (@fdiv binary64 N (@fpow2 binary64 N (r_sigma p)) (t_ss ti)) delta))
               (p_kappa P))
  /\ 0 <= B2R 53 1024 (@fofZ binary64 N 3).
Proof.
  intros N P p ti delta tau.
  destruct (C08_sqrt_arguments_nonneg_binary64 (fun x => x) (fun x => x) (fun x => b64_mult mode_NE x x) (fun x => x))
    as (_ & _ & _ & H4 & H5 & H6 & _).
  split; [apply H4; vm_compute; reflexivity|].
  split.
  - apply (H5 P ti delta p).
    + vm_compute. reflexivity.
    + apply FloatOrderL.b64_sign_nonneg. vm_compute. reflexivity.
    + vm_compute. reflexivity.
  - apply (H6 3%nat). vm_compute. discriminate.
Qed.

(** the argument of [inv_cdf] in [draw_margin], [(1 + 1 / np) / 2], is a finite double in
    [1/2, 3/4] (inside (0, 1): no StatisticsError) for 2 <= np <= 2^53 players. *)
Theorem C08_icdf_argument_binary64 :
  forall (exp64 erfc64 pow64 icdf64 : binary64 -> binary64) (k : nat),
  (2 <= k)%nat -> (Z.of_nat k <= 9007199254740992)%Z ->
  is_finite 53 1024
    (@fdiv binary64 (B64Num exp64 erfc64 pow64 icdf64)
       (@fadd binary64 (B64Num exp64 erfc64 pow64 icdf64) (@fone binary64 (B64Num exp64 erfc64 pow64 icdf64))
          (@fdiv binary64 (B64Num exp64 erfc64 pow64 icdf64) (@fone binary64 (B64Num exp64 erfc64 pow64 icdf64)) (@fofZ binary64 (B64Num exp64 erfc64 pow64 icdf64) (Z.of_nat k))))
       (@ftwo binary64 (B64Num exp64 erfc64 pow64 icdf64))) = true
  /\ / 2 <= B2R 53 1024
              (@fdiv binary64 (B64Num exp64 erfc64 pow64 icdf64)
                 (@fadd binary64 (B64Num exp64 erfc64 pow64 icdf64) (@fone binary64 (B64Num exp64 erfc64 pow64 icdf64))
                    (@fdiv binary64 (B64Num exp64 erfc64 pow64 icdf64) (@fone binary64 (B64Num exp64 erfc64 pow64 icdf64)) (@fofZ binary64 (B64Num exp64 erfc64 pow64 icdf64) (Z.of_nat k))))
                 (@ftwo binary64 (B64Num exp64 erfc64 pow64 icdf64))) <= 3 / 4.
Proof. exact FloatDenomL.icdf_arg_b64. Qed.
Print Assumptions C08_icdf_argument_binary64.

Example C08_icdf_argument_binary64_example :
  let N := B64Num (fun x => x) (fun x => x) (fun x => b64_mult mode_NE x x) (fun x => x) in
  / 2 <= B2R 53 1024
           (@fdiv binary64 N (@fadd binary64 N (@fone binary64 N)
                                (@fdiv binary64 N (@fone binary64 N) (@fofZ binary64 N (Z.of_nat 3))))
              (@ftwo binary64 N)) <= 3 / 4.
Proof.
  intros N.
  apply (C08_icdf_argument_binary64 (fun x => x) (fun x => x) (fun x => b64_mult mode_NE x x) (fun x => x) 3%nat).
  - auto.
  - vm_compute. discriminate.
Qed.

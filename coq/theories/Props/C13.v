(** * C13: malformed calls are rejected with TypeError/ValueError before any side effect.

    The type [exn] has exactly the two constructors [TypeError] and [ValueError]
    and the outcome of [run] is [Ok _] or [Raise e] with [e : exn], so
    "[exists e, ... = Raise e]" reads: raises TypeError or ValueError, never any
    other exception and never a normal return.

    [wf_teams k v]  : v is a list of at least two non-empty lists of rating objects of model k.
    [wf_keys n v]   : v is a list of n ints / floats / bools.
    (boolean predicates of Lemmas/C13L.v; [C13_wf_teams_meaning] and [C13_wf_keys_meaning]
    below state what they decide).  A ranks/scores value is "given" iff it is truthy. *)
From Coq Require Import List ZArith Bool.
From OSV Require Import Num Order Core Predict PyVal Prog.
From OSV.Lemmas Require Import ProgL C13L.
Import ListNotations.

Theorem C13_wf_teams_meaning : forall (F : Type) (k : kind) (v : pyval F),
  wf_teams k v = true <->
  exists tms : list (list (rating F)),
    2 <= length tms /\ Forall (fun t => t <> []) tms /\
    v = PList (map (fun t => PList (map (PRating k) t)) tms).
Proof. exact (@wf_teams_spec). Qed.
Print Assumptions C13_wf_teams_meaning.

Theorem C13_wf_keys_meaning : forall (F : Type) (n : nat) (v : pyval F),
  wf_keys n v = true <->
  exists l, length l = n /\ v = PList l /\
            Forall (fun x => (exists b, x = PBool b) \/ (exists z, x = PInt z) \/
                             (exists f num e, x = PFloat f num e)) l.
Proof. exact (@wf_keys_spec). Qed.
Print Assumptions C13_wf_keys_meaning.

(** malformed teams: rejected, whatever the other arguments *)
Theorem C13_reject_teams : forall (F : Type) (N : Num F) k (teams ranks scores tau limit : pyval F) st,
  wf_teams k teams = false ->
  exists e, snd (run (rate_prog k teams ranks scores tau limit) st) = Raise e.
Proof. exact (@reject_teams). Qed.
Print Assumptions C13_reject_teams.

Theorem C13_reject_teams_predict : forall (F : Type) (N : Num F) k (teams : pyval F) st,
  wf_teams k teams = false ->
  (exists e, snd (run (predict_win_prog k teams) st) = Raise e) /\
  (exists e, snd (run (predict_draw_prog k teams) st) = Raise e) /\
  (exists e, snd (run (predict_rank_prog k teams) st) = Raise e).
Proof. intros; repeat split; apply predict_reject; assumption. Qed.
Print Assumptions C13_reject_teams_predict.

(** well-formed teams, ranks given but not a list of [length teams] numbers *)
Theorem C13_reject_ranks : forall (F : Type) (N : Num F) k (ts : list (pyval F)) (ranks scores tau limit : pyval F) st,
  wf_teams k (PList ts) = true -> truthy ranks = true -> wf_keys (length ts) ranks = false ->
  exists e, snd (run (rate_prog k (PList ts) ranks scores tau limit) st) = Raise e.
Proof. exact (@reject_ranks). Qed.
Print Assumptions C13_reject_ranks.

(** well-formed teams, scores given but not a list of [length teams] numbers (any ranks) *)
Theorem C13_reject_scores : forall (F : Type) (N : Num F) k (ts : list (pyval F)) (ranks scores tau limit : pyval F) st,
  wf_teams k (PList ts) = true -> truthy scores = true -> wf_keys (length ts) scores = false ->
  exists e, snd (run (rate_prog k (PList ts) ranks scores tau limit) st) = Raise e.
Proof. exact (@reject_scores). Qed.
Print Assumptions C13_reject_scores.

(** both ranks and scores given *)
Theorem C13_reject_both : forall (F : Type) (N : Num F) k (teams ranks scores tau limit : pyval F) st,
  truthy ranks = true -> truthy scores = true ->
  exists e, snd (run (rate_prog k teams ranks scores tau limit) st) = Raise e.
Proof. exact (@reject_both). Qed.
Print Assumptions C13_reject_both.

(** EVERY raising outcome of [rate] (validation of teams / ranks / scores, both given, a
    non-numeric per-call tau): the effect trace is empty — in particular it contains no
    [EWrF], [EWrLimit], [EMutMu], [EMutSigma] — and the model state is the initial one *)
Theorem C13_atomic : forall (F : Type) (N : Num F) k (teams ranks scores tau limit : pyval F) st e,
  snd (run (rate_prog k teams ranks scores tau limit) st) = Raise e ->
  fst (fst (run (rate_prog k teams ranks scores tau limit) st)) = [] /\
  snd (fst (run (rate_prog k teams ranks scores tau limit) st)) = st.
Proof. exact (@atomic). Qed.
Print Assumptions C13_atomic.

(** every well-formed call is accepted: rank / score values may be any int, float or bool
    (zero and negative included: [wf_keys] puts no condition on the values) *)
Theorem C13_accept : forall (F : Type) (N : Num F) k (ts : list (pyval F)) (ranks scores tau limit : pyval F) st,
  wf_teams k (PList ts) = true ->
  (truthy ranks = false \/ wf_keys (length ts) ranks = true) ->
  (truthy scores = false \/ wf_keys (length ts) scores = true) ->
  ~ (truthy ranks = true /\ truthy scores = true) ->
  (tau = PNone \/ is_number tau = true) ->
  exists r, snd (run (rate_prog k (PList ts) ranks scores tau limit) st) = Ok r.
Proof. exact (@accept). Qed.
Print Assumptions C13_accept.

Theorem C13_accept_predict : forall (F : Type) (N : Num F) k (teams : pyval F) st,
  wf_teams k teams = true ->
  (exists r, snd (run (predict_win_prog k teams) st) = Ok r) /\
  (exists r, snd (run (predict_draw_prog k teams) st) = Ok r) /\
  (exists r, snd (run (predict_rank_prog k teams) st) = Ok r).
Proof. intros; repeat split; apply predict_accept; assumption. Qed.
Print Assumptions C13_accept_predict.

(** the predict operations have no effect at all, on any input: the model state is
    unchanged and their traces consist of reads only *)
Theorem C13_predict_no_effects : forall (F : Type) (N : Num F) k (teams : pyval F) st,
  (snd (fst (run (predict_win_prog k teams) st)) = st /\
   forall ev, In ev (fst (fst (run (predict_win_prog k teams) st))) ->
              match ev with ERdF _ | ERdLimit | ERdGamma => True | _ => False end) /\
  (snd (fst (run (predict_draw_prog k teams) st)) = st /\
   forall ev, In ev (fst (fst (run (predict_draw_prog k teams) st))) ->
              match ev with ERdF _ | ERdLimit | ERdGamma => True | _ => False end) /\
  (snd (fst (run (predict_rank_prog k teams) st)) = st /\
   forall ev, In ev (fst (fst (run (predict_rank_prog k teams) st))) ->
              match ev with ERdF _ | ERdLimit | ERdGamma => True | _ => False end).
Proof. intros; repeat apply conj; apply predict_no_effects. Qed.
Print Assumptions C13_predict_no_effects.

(** additionally: a per-call tau that is neither None nor a number is rejected as well
    (covered by [C13_atomic]: nothing has happened when it is) *)
Theorem C13_reject_tau : forall (F : Type) (N : Num F) k (teams ranks scores tau limit : pyval F) st,
  tau <> PNone -> is_number tau = false ->
  exists e, snd (run (rate_prog k teams ranks scores tau limit) st) = Raise e.
Proof. exact (@reject_tau). Qed.
Print Assumptions C13_reject_tau.

(** which class, for the first-level causes, in the order of the checks: teams not a list
    -> TypeError; fewer than two teams -> ValueError; ranks (scores) given but not a list ->
    TypeError, a list of the wrong length -> ValueError; valid ranks and scores given ->
    ValueError *)
Theorem C13_class : forall (F : Type) (N : Num F) k (ts : list (pyval F)) (teams ranks scores tau limit : pyval F) st,
  ((forall l, teams <> PList l) ->
     snd (run (rate_prog k teams ranks scores tau limit) st) = Raise TypeError) /\
  (length ts < 2 ->
     snd (run (rate_prog k (PList ts) ranks scores tau limit) st) = Raise ValueError) /\
  (wf_teams k (PList ts) = true -> truthy ranks = true -> (forall l, ranks <> PList l) ->
     snd (run (rate_prog k (PList ts) ranks scores tau limit) st) = Raise TypeError) /\
  (wf_teams k (PList ts) = true -> truthy ranks = true ->
     (forall l, ranks = PList l -> length l <> length ts) -> (exists l, ranks = PList l) ->
     snd (run (rate_prog k (PList ts) ranks scores tau limit) st) = Raise ValueError) /\
  (wf_teams k (PList ts) = true -> truthy ranks = true -> wf_keys (length ts) ranks = true ->
     truthy scores = true ->
     snd (run (rate_prog k (PList ts) ranks scores tau limit) st) = Raise ValueError) /\
  (wf_teams k (PList ts) = true -> truthy ranks = false -> truthy scores = true ->
     (forall l, scores <> PList l) ->
     snd (run (rate_prog k (PList ts) ranks scores tau limit) st) = Raise TypeError) /\
  (wf_teams k (PList ts) = true -> truthy ranks = false -> truthy scores = true ->
     (forall l, scores = PList l -> length l <> length ts) -> (exists l, scores = PList l) ->
     snd (run (rate_prog k (PList ts) ranks scores tau limit) st) = Raise ValueError).
Proof. exact (@class_cases). Qed.
Print Assumptions C13_class.

(** ** non-vacuity, on the concrete carrier [ZNum] (integers) of Lemmas/ProgL.v *)

(** a well-formed call with an int and a float rank is accepted (hypotheses of [C13_accept]) *)
Example C13_accept_ex :
  wf_teams PL (ex_teams PL) = true /\ wf_keys 2 ex_ranks = true /\
  truthy (PNone : pyval Z) = false /\
  exists r, snd (@run Z _ (@rate_prog Z ZNum PL (ex_teams PL) ex_ranks PNone PNone PNone) ex_state) = Ok r.
Proof. repeat split; try reflexivity. eexists. vm_compute. reflexivity. Qed.

(** ... and with bool / negative scores, a per-call tau of 0 and limit_sigma=True *)
Example C13_accept_ex2 :
  wf_teams BTF (ex_teams BTF) = true /\ wf_keys 2 ex_scores = true /\ is_number (PInt 0 : pyval Z) = true /\
  exists r, snd (@run Z _ (@rate_prog Z ZNum BTF (ex_teams BTF) PNone ex_scores (PInt 0) (PBool true)) ex_state) = Ok r.
Proof. repeat split; try reflexivity. eexists. vm_compute. reflexivity. Qed.

(** malformed: a rating of another model in the teams; a one-team game; an empty team *)
Example C13_reject_teams_ex :
  wf_teams TMF (ex_teams PL) = false /\
  wf_teams PL (PList [PList [PRating PL (ex_rating 25 8 1)]]) = false /\
  wf_teams PL (PList [PList [PRating PL (ex_rating 25 8 1)]; PList []]) = false /\
  snd (@run Z _ (@rate_prog Z ZNum TMF (ex_teams PL) PNone PNone PNone PNone) ex_state) = Raise TypeError /\
  snd (@run Z _ (@rate_prog Z ZNum PL (PList [PList [PRating PL (ex_rating 25 8 1)]; PList []]) PNone PNone PNone PNone) ex_state) = Raise ValueError.
Proof. repeat split; reflexivity. Qed.

(** malformed ranks (wrong length; a string inside), both given *)
Example C13_reject_keys_ex :
  wf_keys 2 (PList [PInt 1] : pyval Z) = false /\
  wf_keys 2 (PList [PInt 1; PStr true] : pyval Z) = false /\
  snd (@run Z _ (@rate_prog Z ZNum PL (ex_teams PL) (PList [PInt 1]) PNone PNone PNone) ex_state) = Raise ValueError /\
  snd (@run Z _ (@rate_prog Z ZNum PL (ex_teams PL) (PList [PInt 1; PStr true]) PNone PNone PNone) ex_state) = Raise TypeError /\
  snd (@run Z _ (@rate_prog Z ZNum PL (ex_teams PL) ex_ranks ex_scores PNone PNone) ex_state) = Raise ValueError.
Proof. repeat split; reflexivity. Qed.

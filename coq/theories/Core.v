(** * Core: ratings, team aggregates, the five [_compute] update rules and the
    pure core of [rate] (tau inflation, sort by rank, update, unsort, clamp). *)
From Coq Require Import List ZArith Bool Arith.
From OSV Require Import Num Order Gauss.
Import ListNotations.

(** Player name as far as the code can observe it: [None], or a string with its
    truthiness and an opaque tag. *)
Inductive name := NmNone | NmStr (truthy : bool) (tag : Z).

Inductive kind := PL | BTF | BTP | TMF | TMP.
Definition kind_eqb (a b : kind) : bool :=
  match a, b with PL, PL | BTF, BTF | BTP, BTP | TMF, TMF | TMP, TMP => true | _, _ => false end.

Section Core.
Context {F : Type} `{Num F}.

Record rating := mkRating { r_mu : F; r_sigma : F; r_id : Z; r_name : name }.
Definition set_mu_sigma (r : rating) (m s : F) : rating :=
  {| r_mu := m; r_sigma := s; r_id := r_id r; r_name := r_name r |}.
Definition set_sigma (r : rating) (s : F) : rating := set_mu_sigma r (r_mu r) s.

(** [*TeamRating] *)
Record trating := mkT { t_mu : F; t_ss : F; t_team : list rating; t_rank : nat }.

(** the gamma callback: [gamma(c, k, mu, sigma_squared, team, rank)] *)
Definition gamma_fn := F -> nat -> F -> F -> list rating -> nat -> F.
Definition gamma_default : gamma_fn := fun c _ _ ss _ _ => fdiv (fsqrt ss) c.

(** model construction parameters that [_compute] reads *)
Record params := mkParams { p_beta : F; p_kappa : F; p_gamma : gamma_fn }.

(** [_calculate_team_ratings] given the dense ranks *)
Definition team_rating (team : list rating) (rank : nat) : trating :=
  {| t_mu := reduce_add (map r_mu team);
     t_ss := reduce_add (map (fun p => fpow2 (r_sigma p)) team);
     t_team := team; t_rank := rank |}.
Definition team_ratings (game : list (list rating)) (ranks : list nat) : list trating :=
  map (fun tr => team_rating (fst tr) (snd tr)) (combine game ranks).

(** the per-player split shared by all five models *)
Definition update_player (P : params) (ti : trating) (omega delta : F) (p : rating) : rating :=
  let share := fdiv (fpow2 (r_sigma p)) (t_ss ti) in
  set_mu_sigma p
    (fadd (r_mu p) (fmul share omega))
    (fmul (r_sigma p) (fsqrt (fmax (fsub fone (fmul share delta)) (p_kappa P)))).
Definition update_team (P : params) (ti : trating) (od : F * F) : list rating :=
  map (update_player P ti (fst od) (snd od)) (t_team ti).

Definition nteams (trs : list trating) : nat := length trs.
Definition gamma_of (P : params) (c : F) (trs : list trating) (ti : trating) : F :=
  p_gamma P c (nteams trs) (t_mu ti) (t_ss ti) (t_team ti) (t_rank ti).

(** ** Plackett-Luce *)
Definition pl_c (P : params) (trs : list trating) : F :=
  fsqrt (fold_left (fun acc t => fadd acc (fadd (t_ss t) (fpow2 (p_beta P)))) trs fzero).
Definition pl_sum_q (trs : list trating) (c : F) : list F :=
  map (fun tq => reduce_add (map (fun ti => fexp (fdiv (t_mu ti) c))
                   (filter (fun ti => Nat.leb (t_rank tq) (t_rank ti)) trs))) trs.
Definition pl_a (trs : list trating) : list nat :=
  map (fun ti => length (filter (fun tq => Nat.eqb (t_rank ti) (t_rank tq)) trs)) trs.

Definition pl_step (i : nat) (ti : trating) (e : F) (od : F * F)
           (qt : nat * (trating * (F * nat))) : F * F :=
  let q := fst qt in let tq := fst (snd qt) in
  let sq := fst (snd (snd qt)) in let aq := fofZ (Z.of_nat (snd (snd (snd qt)))) in
  let p := fdiv e sq in
  if Nat.leb (t_rank tq) (t_rank ti) then
    (if Nat.eqb q i then fadd (fst od) (fdiv (fsub fone p) aq)
                    else fsub (fst od) (fdiv p aq),
     fadd (snd od) (fdiv (fmul p (fsub fone p)) aq))
  else od.

Definition pl_omega_delta (P : params) (trs : list trating) (c : F)
           (qs : list (nat * (trating * (F * nat)))) (i : nat) (ti : trating) : F * F :=
  let e := fexp (fdiv (t_mu ti) c) in
  let od := fold_left (pl_step i ti e) qs (fzero, fzero) in
  let omega := fmul (fst od) (fdiv (t_ss ti) c) in
  let delta := fmul (snd od) (fdiv (t_ss ti) (fpow2 c)) in
  (omega, fmul delta (gamma_of P c trs ti)).

Definition compute_pl (P : params) (trs : list trating) : list (list rating) :=
  let c := pl_c P trs in
  let qs := combine (seq 0 (length trs)) (combine trs (combine (pl_sum_q trs c) (pl_a trs))) in
  map (fun it => update_team P (fst (snd it))
                   (pl_omega_delta P trs c qs (fst it) (fst (snd it)))) qs.

(** ** Bradley-Terry: one pairwise term *)
Definition c_iq (P : params) (ti tq : trating) : F :=
  fsqrt (fadd (fadd (t_ss ti) (t_ss tq)) (fmul ftwo (fpow2 (p_beta P)))).

Definition bt_term (P : params) (trs : list trating) (ti : trating) (od : F * F) (tq : trating) : F * F :=
  let c := c_iq P ti tq in
  let p := fdiv fone (fadd fone (fexp (fdiv (fsub (t_mu tq) (t_mu ti)) c))) in
  let s2c := fdiv (t_ss ti) c in
  let s := if Nat.ltb (t_rank ti) (t_rank tq) then fone
           else if Nat.eqb (t_rank tq) (t_rank ti) then fhalf else fzero in
  let g := gamma_of P c trs ti in
  (fadd (fst od) (fmul s2c (fsub s p)),
   fadd (snd od) (fmul (fmul (fdiv (fmul g s2c) c) p) (fsub fone p))).

(** ** Thurstone-Mosteller: one pairwise term; [cmul] is 1 (full) or 2 (partial, see K1) *)
Definition tm_term (two_c : bool) (P : params) (trs : list trating) (ti : trating)
           (od : F * F) (tq : trating) : F * F :=
  let c := if two_c then fmul ftwo (c_iq P ti tq) else c_iq P ti tq in
  let dmu := fdiv (fsub (t_mu ti) (t_mu tq)) c in
  let s2c := fdiv (t_ss ti) c in
  let g := gamma_of P c trs ti in
  let t := fdiv (p_kappa P) c in
  if Nat.ltb (t_rank ti) (t_rank tq) then
    (fadd (fst od) (fmul s2c (v dmu t)),
     fadd (snd od) (fmul (fdiv (fmul g s2c) c) (w dmu t)))
  else if Nat.ltb (t_rank tq) (t_rank ti) then
    (fadd (fst od) (fmul (fneg s2c) (v (fneg dmu) t)),
     fadd (snd od) (fmul (fdiv (fmul g s2c) c) (w (fneg dmu) t)))
  else
    (fadd (fst od) (fmul s2c (vt dmu t)),
     fadd (snd od) (fmul (fdiv (fmul g s2c) c) (wt dmu t))).

(** full pairing: every other team, in order; partial pairing: ladder neighbours *)
Definition compute_pairs (term : trating -> F * F -> trating -> F * F)
           (opp : list (trating * list trating)) (P : params) : list (list rating) :=
  map (fun io => update_team P (fst io) (fold_left (term (fst io)) (snd io) (fzero, fzero))) opp.

Definition opponents_full (trs : list trating) : list (trating * list trating) := rows trs.
Definition opponents_part (trs : list trating) : list (trating * list trating) :=
  combine trs (ladder_pairs trs).

Definition compute (k : kind) (P : params) (trs : list trating) : list (list rating) :=
  match k with
  | PL => compute_pl P trs
  | BTF => compute_pairs (bt_term P trs) (opponents_full trs) P
  | BTP => compute_pairs (bt_term P trs) (opponents_part trs) P
  | TMF => compute_pairs (tm_term false P trs) (opponents_full trs) P
  | TMP => compute_pairs (tm_term true P trs) (opponents_part trs) P
  end.

(** ** The pure core of [rate] *)
Definition inflate (tau : F) (r : rating) : rating :=
  set_sigma r (fsqrt (fadd (fmul (r_sigma r) (r_sigma r)) (fmul tau tau))).

Definition clamp_player (orig res : rating) : rating :=
  if fleb (r_sigma res) (r_sigma orig) then res else set_sigma res (r_sigma orig).
Definition clamp (orig res : list (list rating)) : list (list rating) :=
  map (fun tt => map (fun pp => clamp_player (fst pp) (snd pp)) (combine (fst tt) (snd tt)))
      (combine orig res).

(** the update in the order given by the (optional) rank values *)
Definition rate_sorted (k : kind) (P : params) (teams : list (list rating))
           (keys : option (list key)) : list (list rating) :=
  match keys with
  | None => compute k P (team_ratings teams (seq 0 (length teams)))
  | Some ks =>
      let st := unwind key_leb ks teams in
      let sorted_keys := isort key_leb ks in
      let res := compute k P (team_ratings (fst st) (calc_rankings key_ltb sorted_keys)) in
      fst (unwind Nat.leb (snd st) res)
  end.

Definition rate_core (k : kind) (P : params) (tau : F) (limit : bool)
           (teams : list (list rating)) (keys : option (list key)) : list (list rating) :=
  let res := rate_sorted k P (map (map (inflate tau)) teams) keys in
  if limit then clamp teams res else res.
End Core.

Arguments rating F : clear implicits.
Arguments trating F : clear implicits.
Arguments params F : clear implicits.
Arguments gamma_fn F : clear implicits.

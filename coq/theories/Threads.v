(** * Threads: an interleaving semantics for effect programs.

    A pool of threads, each an effect program ([Prog.prog]) together with the
    trace it has emitted so far, runs over ONE shared model state.  A schedule
    is a list of thread indices; scheduling thread [i] performs the next effect
    of that thread: a read sees the current shared state, a write updates it.
    [MutMu]/[MutSigma] are writes to the rating objects that were passed to
    that very call; they are recorded in the thread's trace and do not touch
    the shared state (the rating objects of different threads are disjoint:
    this is the hypothesis of the property, built into the semantics).
    Scheduling a finished thread or an index outside the pool is a no-op. *)
From Coq Require Import List Arith Lia.
From OSV Require Import Num Core PyVal Prog.
Import ListNotations.

Section Threads.
Context {F : Type} {A : Type}.

(** one small step of a program against the shared state *)
Definition step (p : prog F A) (st : mstate F) : option (event F * prog F A * mstate F) :=
  match p with
  | Ret _ | Fail _ => None
  | RdF a k => Some (ERdF a, k (get_f st a), st)
  | RdLimit k => Some (ERdLimit, k (m_limit st), st)
  | RdGamma k => Some (ERdGamma, k (m_gamma st), st)
  | WrF a x k => Some (EWrF a x, k, set_f st a x)
  | WrLimit b k => Some (EWrLimit b, k, set_limit st b)
  | MutMu i j x k => Some (EMutMu i j x, k, st)
  | MutSigma i j x k => Some (EMutSigma i j x, k, st)
  end.

(** the outcome of a thread that has run to completion *)
Definition finished (p : prog F A) : option (res A) :=
  match p with Ret a => Some (Ok a) | Fail e => Some (Raise e) | _ => None end.

(** a thread: the trace emitted so far and the rest of the program *)
Definition thread : Type := list (event F) * prog F A.
Definition pool : Type := list thread.

Fixpoint upd {X} (l : list X) (i : nat) (x : X) : list X :=
  match l, i with
  | [], _ => []
  | _ :: l', 0 => x :: l'
  | y :: l', S i' => y :: upd l' i' x
  end.

Definition sched_step (cfg : pool * mstate F) (i : nat) : pool * mstate F :=
  match nth_error (fst cfg) i with
  | Some (tr, p) =>
      match step p (snd cfg) with
      | Some (e, p', st') => (upd (fst cfg) i (tr ++ [e], p'), st')
      | None => cfg
      end
  | None => cfg
  end.

Definition exec (sched : list nat) (cfg : pool * mstate F) : pool * mstate F :=
  fold_left sched_step sched cfg.

Definition init (ps : list (prog F A)) : pool := map (fun p => ([], p)) ps.

Definition all_finished (pl : pool) : Prop :=
  Forall (fun tq => finished (snd tq) <> None) pl.

(** ** small steps agree with [run] *)
Lemma step_run p st e p' st' :
  step p st = Some (e, p', st') ->
  run p st = (e :: fst (fst (run p' st')), snd (fst (run p' st')), snd (run p' st')).
Proof.
  destruct p; cbn; intros Hs; inversion Hs; subst; reflexivity.
Qed.

Lemma finished_run p st o : finished p = Some o -> run p st = ([], st, o).
Proof. destruct p; cbn; intros Hf; inversion Hf; reflexivity. Qed.

Lemma step_none_finished p st : step p st = None -> finished p <> None.
Proof. destruct p; cbn; congruence. Qed.

End Threads.

(** * GaussFull: [GaussFacts] for the concrete distribution function of GaussInst.v.

    [GaussInst.PhiK] / [GaussInst.PhiinvK] satisfy the whole record [GaussFacts]
    (RInst.v): [GaussFacts_inst], without any hypothesis.  The value of the Gaussian integral
      [GIV : 2 * Iinf = sqrt (2 * PI)],  [Iinf = lim_{x -> oo} int_0^x exp (-t^2/2) dt],
    comes from GaussIntegral.v ([GIV_holds]); [GaussFacts_inst_cond : GIV -> GaussFacts ...]
    is the intermediate step.  Everything else is proved here, in particular the numeric field
    [gf_tail8] ([PhiK_tail8]: a Mills-ratio lower bound for the tail beyond 8, a crude
    upper bound for [Iinf], and rational bounds for [exp (-32)] by repeated squaring --
    no interval-arithmetic tactic, hence no primitive-integer/float dependency). *)
From Coq Require Import Reals Lra Lia.
From Coquelicot Require Import Coquelicot.
From OSV Require Import RInst GaussInst GaussCalc.
From OSV Require GaussIntegral.
Open Scope R_scope.

(** ** The Gaussian integral value *)
Definition GIV : Prop := 2 * GaussInst.Iinf = sqrt (2 * PI).

Lemma GIV_of_limit :
  is_lim (fun x => RInt (fun t => exp (- (t * t) / 2)) 0 x) p_infty (sqrt (2 * PI) / 2) -> GIV.
Proof.
  intros L. unfold GIV.
  assert (E : Finite (sqrt (2 * PI) / 2) = Finite Iinf).
  { rewrite <- (is_lim_unique G p_infty _ G_lim_p).
    symmetry. apply (is_lim_unique G p_infty). exact L. }
  injection E as E. lra.
Qed.
Print Assumptions GIV_of_limit.

(** ** The numeric tail fact, without [GIV] *)

(** upper bound for the normalising integral: [Iinf <= G 1 + 2 exp (-1/2) < 7/3] *)
Lemma Iinf_le_bound : Iinf <= Gbound.
Proof. apply (proj2 Iinf_lub). intros y [x ->]. apply G_le_bound. Qed.

Lemma G_1_le : G 1 <= 1.
Proof.
  assert (L : G 1 - 1 <= G 0 - 0).
  { apply (derive_nonpos_le (fun x => G x - x) (fun x => g x - 1) 0 1); [lra| |].
    - intros x _. apply (is_derive_minus G (fun x : R => x) x (g x) 1).
      + apply G_derive.
      + apply (@is_derive_id R_AbsRing x).
    - intros x _. pose proof (g_le_1 x). lra. }
  rewrite G_0 in L. lra.
Qed.

Lemma Gbound_lt : Gbound < 7 / 3.
Proof.
  unfold Gbound. pose proof G_1_le as H1.
  assert (H2 : exp (- / 2) < 2 / 3).
  { rewrite exp_Ropp. pose proof (exp_ineq1 (/ 2) ltac:(lra)) as H.
    replace (2 / 3) with (/ (3 / 2)) by field.
    apply Rinv_lt_contravar; [|lra].
    apply Rmult_lt_0_compat; [lra | apply exp_pos]. }
  lra.
Qed.

(** Mills-ratio lower bound on a finite window: [G x + x / (x^2 + 1) * g x] is non-decreasing *)
Lemma mills_window_derive (x : R) :
  is_derive (fun x : R => G x + x / (x * x + 1) * g x) x
            (2 * g x / ((x * x + 1) * (x * x + 1))).
Proof.
  assert (N : x * x + 1 <> 0) by nra.
  replace (2 * g x / ((x * x + 1) * (x * x + 1)))
    with (plus (g x) (2 * g x / ((x * x + 1) * (x * x + 1)) - g x))
    by (unfold plus; cbn; ring).
  apply (is_derive_plus G (fun x : R => x / (x * x + 1) * g x)).
  - apply G_derive.
  - unfold g. auto_derive; [exact N | unfold Rdiv; field; exact N].
Qed.

Lemma mills_window (a b : R) : a <= b ->
  a / (a * a + 1) * g a - b / (b * b + 1) * g b <= G b - G a.
Proof.
  intros Hab.
  assert (L : G a + a / (a * a + 1) * g a <= G b + b / (b * b + 1) * g b).
  { apply (derive_nonneg_le (fun x : R => G x + x / (x * x + 1) * g x)
             (fun x : R => 2 * g x / ((x * x + 1) * (x * x + 1))) a b Hab).
    - intros x _. apply mills_window_derive.
    - intros x _. pose proof (g_pos x).
      apply Rmult_le_pos; [lra|]. left. apply Rinv_0_lt_compat. nra. }
  lra.
Qed.

(** rational lower bound for [exp (-32)] by eleven squarings of [63/64 < exp (-1/64)] *)
Lemma exp_sq_low (x y l l' : R) : 0 <= l -> l < exp x -> y = x + x -> l' <= l * l -> l' < exp y.
Proof.
  intros Hl H -> Hl'. rewrite exp_plus.
  assert (l * l < exp x * exp x) by (apply Rmult_le_0_lt_compat; assumption).
  lra.
Qed.

Lemma exp_m32_low : 983690691217 / 100000000000000000000000000 < exp (- 32).
Proof.
  assert (H0 : 63 / 64 < exp (- / 64)) by (pose proof (exp_ineq1 (- / 64) ltac:(lra)); lra).
  assert (H1 : 968994140625 / 1000000000000 < exp (- / 32))
    by (apply (exp_sq_low (- / 64) _ (63 / 64)); [lra | exact H0 | lra | lra]).
  assert (H2 : 938949644565 / 1000000000000 < exp (- / 16))
    by (apply (exp_sq_low (- / 32) _ (968994140625 / 1000000000000)); [lra | exact H1 | lra | lra]).
  assert (H3 : 881626435028 / 1000000000000 < exp (- / 8))
    by (apply (exp_sq_low (- / 16) _ (938949644565 / 1000000000000)); [lra | exact H2 | lra | lra]).
  assert (H4 : 777265170940 / 1000000000000 < exp (- / 4))
    by (apply (exp_sq_low (- / 8) _ (881626435028 / 1000000000000)); [lra | exact H3 | lra | lra]).
  assert (H5 : 604141145956 / 1000000000000 < exp (- / 2))
    by (apply (exp_sq_low (- / 4) _ (777265170940 / 1000000000000)); [lra | exact H4 | lra | lra]).
  assert (H6 : 364986524237 / 1000000000000 < exp (- 1))
    by (apply (exp_sq_low (- / 2) _ (604141145956 / 1000000000000)); [lra | exact H5 | lra | lra]).
  assert (H7 : 133215162874 / 1000000000000 < exp (- 2))
    by (apply (exp_sq_low (- 1) _ (364986524237 / 1000000000000)); [lra | exact H6 | lra | lra]).
  assert (H8 : 177462796195 / 10000000000000 < exp (- 4))
    by (apply (exp_sq_low (- 2) _ (133215162874 / 1000000000000)); [lra | exact H7 | lra | lra]).
  assert (H9 : 314930440333 / 1000000000000000 < exp (- 8))
    by (apply (exp_sq_low (- 4) _ (177462796195 / 10000000000000)); [lra | exact H8 | lra | lra]).
  assert (H10 : 991811822483 / 10000000000000000000 < exp (- 16))
    by (apply (exp_sq_low (- 8) _ (314930440333 / 1000000000000000)); [lra | exact H9 | lra | lra]).
  assert (H11 : 983690691217 / 100000000000000000000000000 < exp (- 32))
    by (apply (exp_sq_low (- 16) _ (991811822483 / 10000000000000000000)); [lra | exact H10 | lra | lra]).
  exact H11.
Qed.

Lemma g_8_low : 983690691217 / 100000000000000000000000000 < g 8.
Proof. unfold g. replace (- (8 * 8) / 2) with (- 32) by lra. exact exp_m32_low. Qed.

Lemma g_40_up : g 40 <= g 8 / 769.
Proof.
  unfold g. replace (- (40 * 40) / 2) with (- (8 * 8) / 2 + Ropp 768) by lra.
  rewrite exp_plus. pose proof (exp_pos (- (8 * 8) / 2)) as P.
  assert (H : exp (Ropp 768) <= / 769).
  { rewrite exp_Ropp. pose proof (exp_ineq1 768 ltac:(lra)) as H.
    left. apply Rinv_lt_contravar; [|lra].
    apply Rmult_lt_0_compat; [lra | apply exp_pos]. }
  unfold Rdiv. apply Rmult_le_compat_l; lra.
Qed.

Theorem PhiK_tail8 : / 4503599627370496 < PhiK (- 8).
Proof.
  pose proof I_pos as HI. pose proof Iinf_le_bound as H1. pose proof Gbound_lt as H2.
  pose proof (mills_window 8 40 ltac:(lra)) as H3. pose proof (G_lt_I 40) as H4.
  pose proof g_8_low as H5. pose proof g_40_up as H6.
  assert (E : G (- 8) = - G 8) by (rewrite <- G_odd; f_equal; lra).
  unfold PhiK. rewrite E.
  replace (/ 2 + - G 8 / (2 * Iinf)) with ((Iinf - G 8) / (2 * Iinf)) by (field; lra).
  apply (Rmult_lt_reg_r (2 * Iinf)); [lra|].
  replace ((Iinf - G 8) / (2 * Iinf) * (2 * Iinf)) with (Iinf - G 8) by (field; lra).
  lra.
Qed.
Print Assumptions PhiK_tail8.

(** ** The full record, given the Gaussian integral value *)
Theorem GaussFacts_inst_cond : GIV -> GaussFacts PhiK PhiinvK.
Proof.
  intros HG. pose proof I_pos as HI.
  apply (GaussFacts_from_calculus PhiK PhiinvK (/ (2 * Iinf))).
  - intros x. replace (/ (2 * Iinf) * exp (- (x * x) / 2)) with (g x / (2 * Iinf))
      by (unfold g, Rdiv; ring).
    apply PhiK_derive.
  - exact PhiK_lim_m.
  - exact GaussCDF_inst.
  - unfold GIV in HG. rewrite HG. reflexivity.
  - exact PhiK_tail8.
Qed.
Print Assumptions GaussFacts_inst_cond.

(** ** The Gaussian integral value (GaussIntegral.v) and the unconditional instance *)
Theorem GIV_holds : GIV.
Proof. exact (GIV_of_limit GaussIntegral.gauss_integral). Qed.
Print Assumptions GIV_holds.

Theorem GaussFacts_inst : GaussFacts PhiK PhiinvK.
Proof. exact (GaussFacts_inst_cond GIV_holds). Qed.
Print Assumptions GaussFacts_inst.

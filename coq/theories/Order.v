(** * Order: the discrete, number-free part of the library.

    Stable sorting, [_unwind], [_calculate_rankings], [_ladder_pairs],
    [_arg_sort], [_rank_data], the ordered pairs of [itertools.permutations(l, 2)]
    regrouped in rows, and the exact model of rank/score values. *)
From Coq Require Import List ZArith Bool Arith.
Import ListNotations.

(** ** Stable insertion sort (Python's [list.sort]/[sorted] are stable sorts;
    only the resulting order matters, not the algorithm). *)
Section Sort.
Context {A : Type} (leb : A -> A -> bool).
Fixpoint insert (x : A) (l : list A) : list A :=
  match l with
  | [] => [x]
  | y :: ys => if leb x y then x :: l else y :: insert x ys
  end.
Definition isort (l : list A) : list A := fold_right insert [] l.
End Sort.

(** ** Rank / score values.
    Python ints, bools and (finite) floats, compared exactly as CPython compares
    them: as exact rationals.  A value is [num / 2^k], [k >= 0]
    ([float.as_integer_ratio()]; ints have [k = 0]). *)
Definition key := (Z * Z)%type.
Definition key_leb (a b : key) : bool := (fst a * 2 ^ snd b <=? fst b * 2 ^ snd a)%Z.
Definition key_ltb (a b : key) : bool := (fst a * 2 ^ snd b <? fst b * 2 ^ snd a)%Z.
Definition key_neg (a : key) : key := (- fst a, snd a)%Z.   (* [_unary_minus] *)
Definition key_of_nat (n : nat) : key := (Z.of_nat n, 0%Z).

(** ** [_unwind(tenet, objects)]: stable sort of [objects] by [tenet],
    returning the sorted objects and their original indices. *)
Section Unwind.
Context {K A : Type} (kleb : K -> K -> bool).
Definition tag_leb (a b : K * (A * nat)) : bool := kleb (fst a) (fst b).
Definition unwind (tenet : list K) (objs : list A) : list A * list nat :=
  let s := isort tag_leb (combine tenet (combine objs (seq 0 (length objs)))) in
  (map (fun x => fst (snd x)) s, map (fun x => snd (snd x)) s).
End Unwind.

(** ** [_calculate_rankings]: sorted rank values -> dense, tie-aware ranks
    ([s] = index of the first member of the current tie group). *)
Section Rankings.
Context {K : Type} (kltb : K -> K -> bool).
Fixpoint calc_rankings_aux (prev : K) (s idx : nat) (l : list K) : list nat :=
  match l with
  | [] => []
  | x :: xs => let s' := if kltb prev x then idx else s in
               s' :: calc_rankings_aux x s' (S idx) xs
  end.
Definition calc_rankings (l : list K) : list nat :=
  match l with [] => [] | x :: xs => 0 :: calc_rankings_aux x 0 1 xs end.
End Rankings.

(** ** [_ladder_pairs]: neighbours (left, then right) of each element. *)
Section Ladder.
Context {A : Type}.
Definition opt_list (o : option A) : list A := match o with Some x => [x] | None => [] end.
Fixpoint ladder_aux (prev : option A) (l : list A) : list (list A) :=
  match l with
  | [] => []
  | x :: xs => (opt_list prev ++ opt_list (hd_error xs)) :: ladder_aux (Some x) xs
  end.
Definition ladder_pairs (l : list A) : list (list A) := ladder_aux None l.

(** Each element with the list of all the others, in order: the rows that
    the zip_longest idiom (groups of n - 1) cuts out of
    [itertools.permutations(l, 2)]. *)
Fixpoint rows_aux (pre : list A) (l : list A) : list (A * list A) :=
  match l with
  | [] => []
  | x :: xs => (x, rev pre ++ xs) :: rows_aux (x :: pre) xs
  end.
Definition rows (l : list A) : list (A * list A) := rows_aux [] l.
End Ladder.

(** ** [_arg_sort] and [_rank_data] (competition ranking "1224"). *)
Section RankData.
Context {V : Type} (vltb veqb : V -> V -> bool).
(** tuple comparison [(v, i) <= (w, j)] *)
Definition pair_leb (a b : V * nat) : bool :=
  if vltb (fst a) (fst b) then true
  else if veqb (fst a) (fst b) then Nat.leb (snd a) (snd b) else false.
Definition arg_sort_pairs (v : list V) : list (V * nat) :=
  isort pair_leb (combine v (seq 0 (length v))).
Definition arg_sort (v : list V) : list nat := map snd (arg_sort_pairs v).

(** walk the sorted vector; [start] = position of the first member of the
    current group of equal values; every member gets rank [start + 1]. *)
Fixpoint rank_groups (prev : V) (start pos : nat) (l : list (V * nat)) : list (nat * nat) :=
  match l with
  | [] => []
  | (x, i) :: xs => let start' := if veqb prev x then start else pos in
                    (i, S start') :: rank_groups x start' (S pos) xs
  end.
Definition rank_assoc (v : list V) : list (nat * nat) :=
  match arg_sort_pairs v with
  | [] => []
  | (x, i) :: xs => (i, 1) :: rank_groups x 0 1 xs
  end.
Fixpoint assoc_get (i : nat) (l : list (nat * nat)) : nat :=
  match l with
  | [] => 0
  | (j, r) :: xs => if Nat.eqb i j then r else assoc_get i xs
  end.
Definition rank_data (v : list V) : list nat :=
  let a := rank_assoc v in map (fun i => assoc_get i a) (seq 0 (length v)).
End RankData.

(** [ranks = [abs(r - max(ranks)) + 1 for r in ranks]] of [predict_rank] (on nat). *)
Definition list_max (l : list nat) : nat := fold_right Nat.max 0 l.
Definition reverse_ranks (l : list nat) : list nat :=
  let m := list_max l in map (fun r => S (m - r)) l.

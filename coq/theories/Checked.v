(** * Checked: the model instantiated on [option R] — real arithmetic with
    exception tracking.

    [CNum Phi Phiinv : Num (option R)] is the real instance [RNum Phi Phiinv] of
    RInst.v with one extra value, [None], which reads "an arithmetic exception has
    been raised".  It raises exactly where the executable float dictionary
    ([fnum] in ocaml/driver.ml) raises [Arith], i.e. where CPython raises:

    - [fdiv a b]  : [None] when [b = 0]          (ZeroDivisionError);
    - [fsqrt x]   : [None] when [x < 0]          (ValueError "math domain error");
    - [fexp x]    : [None] when [x > EXPMAX]     (OverflowError "math range error");
    - [ficdf p]   : [None] unless [0 < p < 1]    (StatisticsError);
    - every operation is strict: a [None] operand gives [None]; a comparison with a
      [None] operand answers [false]; [ffinite None = false].

    [EXPMAX] is the rational 709.782712893384 (= 7097827128933840 / 10^13): the
    largest double whose [exp] is finite is 709.782712893383973..., so this constant
    is (a decimal rounding of) the overflow threshold of [math.exp]; the theorems of
    C08 only need some constant between 452.6 (= 640/sqrt 2) and the true threshold.

    What cannot be expressed over R: the overflow of [x ** 2] (and of [+], [*]) to
    an infinity.  [fpow2] is therefore total here; "all numbers are finite in
    binary64" stays with the run-time monitors.

    Since the model is polymorphic in the carrier, e.g.
    [@predict_win (option R) (CNum Phi Phiinv) (Some beta) (lift_game teams)]
    IS the model, run with exception tracking. *)
From Coq Require Import List ZArith Bool Reals Lra.
From OSV Require Import Num Gauss Core RInst.
Import ListNotations.
Open Scope R_scope.

Definition EXPMAX : R := 7097827128933840 / 10000000000000.

Section Checked.
Variables (Phi Phiinv : R -> R).

Definition c1 (f : R -> R) (a : option R) : option R :=
  match a with Some x => Some (f x) | None => None end.
Definition c2 (f : R -> R -> R) (a b : option R) : option R :=
  match a, b with Some x, Some y => Some (f x y) | _, _ => None end.
Definition cdiv (a b : option R) : option R :=
  match a, b with
  | Some x, Some y => if Req_EM_T y 0 then None else Some (x / y)
  | _, _ => None
  end.
Definition csqrt (a : option R) : option R :=
  match a with Some x => if Rlt_dec x 0 then None else Some (sqrt x) | None => None end.
Definition cexp (a : option R) : option R :=
  match a with Some x => if Rlt_dec EXPMAX x then None else Some (exp x) | None => None end.
Definition cicdf (a : option R) : option R :=
  match a with
  | Some p => if Rlt_dec 0 p then (if Rlt_dec p 1 then Some (Phiinv p) else None) else None
  | None => None
  end.
Definition ccmp (f : R -> R -> bool) (a b : option R) : bool :=
  match a, b with Some x, Some y => f x y | _, _ => false end.
Definition cfinite (a : option R) : bool := match a with Some _ => true | None => false end.

Definition CNum : Num (option R) := {|
  fadd := c2 Rplus; fsub := c2 Rminus; fmul := c2 Rmult; fdiv := cdiv;
  fneg := c1 Ropp; fabs := c1 Rabs;
  fsqrt := csqrt; fexp := cexp;
  ferfc := c1 (fun y => 2 * Phi (- (y * sqrt 2)));
  fpow2 := c1 (fun x => x * x);
  ficdf := cicdf;
  fltb := ccmp Rltb; fleb := ccmp Rleb; feqb := ccmp Reqb;
  ffinite := cfinite;
  fofZ := fun z => Some (IZR z);
  fofdy := fun m e => Some (IZR m * powerRZ 2 e);
  ftau := Some (2 * PI) |}.

(** ** The checked operations on defined operands: they return [Some] of the
    real operation, provided the guard of the operation holds. *)
Local Notation CN := CNum.
Local Notation RN := (RNum Phi Phiinv).

Lemma C_fadd a b : @fadd _ CN (Some a) (Some b) = Some (@fadd _ RN a b).
Proof. reflexivity. Qed.
Lemma C_fsub a b : @fsub _ CN (Some a) (Some b) = Some (@fsub _ RN a b).
Proof. reflexivity. Qed.
Lemma C_fmul a b : @fmul _ CN (Some a) (Some b) = Some (@fmul _ RN a b).
Proof. reflexivity. Qed.
Lemma C_fneg a : @fneg _ CN (Some a) = Some (@fneg _ RN a).
Proof. reflexivity. Qed.
Lemma C_fabs a : @fabs _ CN (Some a) = Some (@fabs _ RN a).
Proof. reflexivity. Qed.
Lemma C_ferfc a : @ferfc _ CN (Some a) = Some (@ferfc _ RN a).
Proof. reflexivity. Qed.
Lemma C_fpow2 a : @fpow2 _ CN (Some a) = Some (@fpow2 _ RN a).
Proof. reflexivity. Qed.
Lemma C_fltb a b : @fltb _ CN (Some a) (Some b) = @fltb _ RN a b.
Proof. reflexivity. Qed.
Lemma C_fleb a b : @fleb _ CN (Some a) (Some b) = @fleb _ RN a b.
Proof. reflexivity. Qed.
Lemma C_feqb a b : @feqb _ CN (Some a) (Some b) = @feqb _ RN a b.
Proof. reflexivity. Qed.
Lemma C_ffinite a : @ffinite _ CN (Some a) = true.
Proof. reflexivity. Qed.
Lemma C_fofZ z : @fofZ _ CN z = Some (@fofZ _ RN z).
Proof. reflexivity. Qed.
Lemma C_fofdy m e : @fofdy _ CN m e = Some (@fofdy _ RN m e).
Proof. reflexivity. Qed.
Lemma C_ftau : @ftau _ CN = Some (@ftau _ RN).
Proof. reflexivity. Qed.

(** the four guarded operations *)
Lemma C_fdiv a b : b <> 0 -> @fdiv _ CN (Some a) (Some b) = Some (@fdiv _ RN a b).
Proof. intros Hb. cbn. destruct (Req_EM_T b 0); [contradiction|reflexivity]. Qed.
Lemma C_fsqrt a : 0 <= a -> @fsqrt _ CN (Some a) = Some (@fsqrt _ RN a).
Proof. intros Ha. cbn. destruct (Rlt_dec a 0); [lra|reflexivity]. Qed.
Lemma C_fexp a : a <= EXPMAX -> @fexp _ CN (Some a) = Some (@fexp _ RN a).
Proof. intros Ha. cbn. destruct (Rlt_dec EXPMAX a); [lra|reflexivity]. Qed.
Lemma C_ficdf p : 0 < p < 1 -> @ficdf _ CN (Some p) = Some (@ficdf _ RN p).
Proof. intros [H0 H1]. cbn. destruct (Rlt_dec 0 p); [|lra]. destruct (Rlt_dec p 1); [reflexivity|lra]. Qed.

(** ... and the guards are sharp: outside them the checked operation raises. *)
Lemma C_fdiv_raises a : @fdiv _ CN (Some a) (Some 0) = None.
Proof. cbn. destruct (Req_EM_T 0 0); [reflexivity|contradiction]. Qed.
Lemma C_fsqrt_raises a : a < 0 -> @fsqrt _ CN (Some a) = None.
Proof. intros Ha. cbn. destruct (Rlt_dec a 0); [reflexivity|contradiction]. Qed.
Lemma C_fexp_raises a : EXPMAX < a -> @fexp _ CN (Some a) = None.
Proof. intros Ha. cbn. destruct (Rlt_dec EXPMAX a); [reflexivity|contradiction]. Qed.
Lemma C_ficdf_raises p : p <= 0 \/ 1 <= p -> @ficdf _ CN (Some p) = None.
Proof.
  intros Hp. cbn. destruct (Rlt_dec 0 p); [|reflexivity]. destruct (Rlt_dec p 1); [lra|reflexivity].
Qed.

(** derived constants *)
Lemma C_fzero : @fzero _ CN = Some (@fzero _ RN). Proof. reflexivity. Qed.
Lemma C_fone : @fone _ CN = Some (@fone _ RN). Proof. reflexivity. Qed.
Lemma C_ftwo : @ftwo _ CN = Some (@ftwo _ RN). Proof. reflexivity. Qed.
Lemma C_fhalf : @fhalf _ CN = Some (@fhalf _ RN). Proof. reflexivity. Qed.
Lemma C_feps : @feps _ CN = Some (@feps _ RN). Proof. reflexivity. Qed.
Lemma C_f1em5 : @f1em5 _ CN = Some (@f1em5 _ RN). Proof. reflexivity. Qed.

(** ** Lifting the inputs: a real rating, seen as a checked rating *)
Definition lift_rating (r : rating R) : rating (option R) :=
  {| r_mu := Some (r_mu r); r_sigma := Some (r_sigma r); r_id := r_id r; r_name := r_name r |}.
Definition lift_team (t : list (rating R)) : list (rating (option R)) := map lift_rating t.
Definition lift_game (g : list (list (rating R))) : list (list (rating (option R))) := map lift_team g.

(** "no exception and finite": a checked number is defined *)
Definition defined (o : option R) : Prop := exists x : R, o = Some x.
Definition rating_defined (r : rating (option R)) : Prop := defined (r_mu r) /\ defined (r_sigma r).

Lemma lift_rating_defined r : rating_defined (lift_rating r).
Proof. split; eexists; reflexivity. Qed.
Lemma lift_game_defined g : Forall (Forall rating_defined) (lift_game g).
Proof.
  unfold lift_game, lift_team. rewrite Forall_map. apply Forall_forall. intros t _.
  rewrite Forall_map. apply Forall_forall. intros r _. apply lift_rating_defined.
Qed.
Lemma defined_finite o : defined o <-> @ffinite _ CN o = true.
Proof. split; [intros [x ->]; reflexivity|]. destruct o; [eexists; reflexivity|discriminate]. Qed.
End Checked.

(** The Gaussian integral:  lim_{x->oo} int_0^x exp(-t^2/2) dt = sqrt(2 PI)/2.

    Route: F(u) := (int_0^u g)^2 + int_0^1 2 exp(-u^2 (1+v^2)/2)/(1+v^2) dv has derivative 0
    (differentiation under the integral sign, Coquelicot's [is_derive_RInt_param]), hence
    F(u) = F(0) = 2 atan 1 = PI/2; the second term is bounded by 2 exp(-u^2/2) -> 0. *)

From Coq Require Import Reals Lra Lia.
From Coquelicot Require Import Coquelicot.

Local Open Scope R_scope.

Definition gI_g (t : R) : R := exp (- (t * t) / 2).
Definition gI_J (x : R) : R := RInt gI_g 0 x.
Definition gI_h (u v : R) : R := 2 * exp (- (u * u) * (1 + v * v) / 2) / (1 + v * v).
Definition gI_dh (u v : R) : R := - 2 * u * exp (- (u * u) * (1 + v * v) / 2).
Definition gI_K (u : R) : R := RInt (gI_h u) 0 1.

Lemma gI_den_pos v : 0 < 1 + v * v.
Proof. nra. Qed.

Lemma gI_g_cont x : continuous gI_g x.
Proof.
  apply (ex_derive_continuous gI_g). unfold gI_g. auto_derive. exact I.
Qed.

Lemma gI_g_pos x : 0 < gI_g x.
Proof. apply exp_pos. Qed.

Lemma gI_g_ex a b : ex_RInt gI_g a b.
Proof. apply (ex_RInt_continuous gI_g). intros z _. apply gI_g_cont. Qed.

Lemma gI_J_is x : is_RInt gI_g 0 x (gI_J x).
Proof. apply (RInt_correct gI_g). apply gI_g_ex. Qed.

Lemma gI_J_derive x : is_derive gI_J x (gI_g x).
Proof.
  apply (is_derive_RInt gI_g gI_J 0 x).
  - apply filter_forall. intros y. apply gI_J_is.
  - apply gI_g_cont.
Qed.

Lemma gI_J_nonneg x : 0 <= x -> 0 <= gI_J x.
Proof.
  intros Hx. apply RInt_ge_0; auto. apply gI_g_ex.
  intros t _. apply Rlt_le, gI_g_pos.
Qed.

(** the partial derivative of h *)
Lemma gI_h_derive u v : is_derive (fun z => gI_h z v) u (gI_dh u v).
Proof.
  unfold gI_h, gI_dh. auto_derive.
  - pose proof (gI_den_pos v). lra.
  - pose proof (gI_den_pos v). unfold Rdiv. field. lra.
Qed.

Lemma gI_dh_cont2 u v : continuity_2d_pt gI_dh u v.
Proof.
  unfold gI_dh.
  apply continuity_2d_pt_mult.
  - apply continuity_2d_pt_mult.
    + apply continuity_2d_pt_const.
    + apply continuity_2d_pt_id1.
  - apply (continuity_1d_2d_pt_comp exp (fun u v => - (u * u) * (1 + v * v) / 2)).
    + apply derivable_continuous_pt, derivable_pt_exp.
    + unfold Rdiv. apply continuity_2d_pt_mult.
      * apply continuity_2d_pt_mult.
        -- apply continuity_2d_pt_opp. apply continuity_2d_pt_mult; apply continuity_2d_pt_id1.
        -- apply continuity_2d_pt_plus.
           ++ apply continuity_2d_pt_const.
           ++ apply continuity_2d_pt_mult; apply continuity_2d_pt_id2.
      * apply continuity_2d_pt_const.
Qed.

Lemma gI_h_cont u v : continuous (gI_h u) v.
Proof.
  apply (ex_derive_continuous (gI_h u)). unfold gI_h. auto_derive.
  pose proof (gI_den_pos v). lra.
Qed.

Lemma gI_h_ex u a b : ex_RInt (gI_h u) a b.
Proof. apply (ex_RInt_continuous (gI_h u)). intros z _. apply gI_h_cont. Qed.

Lemma gI_K_derive u : is_derive gI_K u (RInt (gI_dh u) 0 1).
Proof.
  unfold gI_K.
  assert (E : RInt (gI_dh u) 0 1 = RInt (fun t => Derive (fun z => gI_h z t) u) 0 1).
  { apply RInt_ext. intros t _. symmetry. apply is_derive_unique, gI_h_derive. }
  rewrite E.
  apply (is_derive_RInt_param gI_h 0 1 u).
  - apply filter_forall. intros y t _. eexists. apply gI_h_derive.
  - intros t _.
    apply continuity_2d_pt_ext with (f := gI_dh).
    + intros x y. symmetry. apply is_derive_unique, gI_h_derive.
    + apply gI_dh_cont2.
  - apply filter_forall. intros y. apply gI_h_ex.
Qed.

(** the integral of the partial derivative, by the linear substitution y = u v *)
Lemma gI_dh_int u : RInt (gI_dh u) 0 1 = - 2 * gI_g u * gI_J u.
Proof.
  assert (E1 : RInt (gI_dh u) 0 1
               = RInt (fun v => (- 2 * gI_g u) * (u * (gI_g (u * v + 0)))) 0 1).
  { apply RInt_ext. intros v _.
    change (gI_dh u v = (- 2 * gI_g u) * (u * (gI_g (u * v + 0)))).
    unfold gI_dh, gI_g.
    replace (- (u * u) * (1 + v * v) / 2)
      with (- (u * u) / 2 + - ((u * v + 0) * (u * v + 0)) / 2) by field.
    rewrite exp_plus. ring. }
  rewrite E1.
  assert (E2 : RInt (fun y => u * (gI_g (u * y + 0))) 0 1 = gI_J u).
  { pose proof (RInt_comp_lin (V:=R_CompleteNormedModule) gI_g u 0 0 1 (gI_g_ex _ _)) as H.
    etransitivity; [exact H|]. unfold gI_J. f_equal; ring. }
  assert (X : ex_RInt (fun y => u * (gI_g (u * y + 0))) 0 1).
  { apply (ex_RInt_continuous (V:=R_CompleteNormedModule)). intros z _.
    apply (ex_derive_continuous (fun y => u * (gI_g (u * y + 0)))).
    unfold gI_g. auto_derive. exact I. }
  pose proof (RInt_scal (V:=R_CompleteNormedModule)
                (fun y => u * (gI_g (u * y + 0))) 0 1 (- 2 * gI_g u) X) as H.
  etransitivity; [exact H|]. rewrite E2. reflexivity.
Qed.

Definition gI_F (u : R) : R := gI_J u * gI_J u + gI_K u.

Lemma gI_F_derive u : is_derive gI_F u 0.
Proof.
  unfold gI_F.
  evar_last.
  - apply (is_derive_plus (fun u => gI_J u * gI_J u) gI_K).
    + apply (is_derive_mult gI_J gI_J u).
      * apply gI_J_derive.
      * apply gI_J_derive.
      * intros a b. apply Rmult_comm.
    + apply gI_K_derive.
  - rewrite gI_dh_int. unfold plus, mult, zero; simpl. ring.
Qed.

Lemma gI_F_const u : gI_F u = gI_F 0.
Proof.
  destruct (MVT_gen gI_F 0 u (fun _ => 0)) as [c [_ Hc]].
  - intros x _. apply gI_F_derive.
  - intros x _. apply continuity_pt_filterlim.
    apply (ex_derive_continuous gI_F). eexists. apply gI_F_derive.
  - lra.
Qed.

Lemma gI_F_0 : gI_F 0 = PI / 2.
Proof.
  unfold gI_F, gI_J, gI_K. rewrite RInt_point.
  assert (E : RInt (gI_h 0) 0 1 = RInt (fun v => 2 * (/ (1 + v²))) 0 1).
  { apply RInt_ext. intros v _.
    change (gI_h 0 v = 2 * (/ (1 + v²))). unfold gI_h.
    replace (- (0 * 0) * (1 + v * v) / 2) with 0 by (field).
    rewrite exp_0. unfold Rsqr. field. pose proof (gI_den_pos v). lra. }
  rewrite E.
  assert (A : is_RInt (fun v => / (1 + v²)) 0 1 (atan 1 - atan 0)).
  { apply (is_RInt_derive (V:=R_CompleteNormedModule) atan (fun v => / (1 + v²))).
    - intros x _. apply is_derive_atan.
    - intros x _. apply (ex_derive_continuous (fun v => / (1 + v²))).
      unfold Rsqr. auto_derive. pose proof (gI_den_pos x). lra. }
  pose proof (RInt_scal (V:=R_CompleteNormedModule) (fun v => / (1 + v²)) 0 1 2
                (ex_intro _ _ A)) as H.
  assert (H' : RInt (fun v => 2 * / (1 + v²)) 0 1 = 2 * RInt (fun v => / (1 + v²)) 0 1)
    by exact H.
  rewrite H'. rewrite (is_RInt_unique _ _ _ _ A). rewrite atan_1, atan_0.
  change (0 * 0 + 2 * (PI / 4 - 0) = PI / 2). field.
Qed.

Lemma gI_F_val u : gI_J u * gI_J u + gI_K u = PI / 2.
Proof. rewrite <- gI_F_0, <- (gI_F_const u). reflexivity. Qed.

(** bounds on the remainder term *)
Lemma gI_h_bounds u v : 0 <= gI_h u v <= 2 * gI_g u.
Proof.
  unfold gI_h, gI_g.
  pose proof (gI_den_pos v) as Hd.
  pose proof (exp_pos (- (u * u) * (1 + v * v) / 2)) as He1.
  assert (Hle : exp (- (u * u) * (1 + v * v) / 2) <= exp (- (u * u) / 2)).
  { destruct (Req_dec (- (u * u) * (1 + v * v) / 2) (- (u * u) / 2)) as [E|E].
    - rewrite E. lra.
    - apply Rlt_le, exp_increasing. nra. }
  assert (Hi : 0 < / (1 + v * v) <= 1).
  { split. - apply Rinv_0_lt_compat; lra.
    - assert (H1 : / (1 + v * v) <= / 1) by (apply Rinv_le_contravar; nra).
      rewrite Rinv_1 in H1. exact H1. }
  unfold Rdiv at 1 3. split.
  - apply Rmult_le_pos; [lra | lra].
  - nra.
Qed.

Lemma gI_K_bounds u : 0 <= gI_K u <= 2 * gI_g u.
Proof.
  unfold gI_K. split.
  - apply RInt_ge_0; [lra | apply gI_h_ex |]. intros x _. apply gI_h_bounds.
  - assert (C : RInt (fun _ => 2 * gI_g u) 0 1 = 2 * gI_g u).
    { pose proof (RInt_const (V:=R_CompleteNormedModule) 0 1 (2 * gI_g u)) as H.
      etransitivity; [exact H|]. change ((1 - 0) * (2 * gI_g u) = 2 * gI_g u). ring. }
    apply Rle_trans with (RInt (fun _ => 2 * gI_g u) 0 1); [|rewrite C; lra].
    apply RInt_le; [lra | apply gI_h_ex | apply ex_RInt_const |].
    intros x _. apply gI_h_bounds.
Qed.

Lemma gI_lim_g : is_lim gI_g p_infty 0.
Proof.
  apply (is_lim_le_le_loc (fun _ => 0) (fun u => exp (- u)) gI_g p_infty 0).
  - exists 2. intros x Hx. split.
    + apply Rlt_le, gI_g_pos.
    + unfold gI_g. destruct (Req_dec (- (x * x) / 2) (- x)) as [E|E].
      * rewrite E; lra.
      * apply Rlt_le, exp_increasing. nra.
  - apply is_lim_const.
  - apply (is_lim_comp exp (fun u => - u) p_infty 0 m_infty).
    + apply is_lim_exp_m.
    + evar_last. apply is_lim_opp. apply is_lim_id. reflexivity.
    + exists 0. intros y _. discriminate.
Qed.

Lemma gI_lim_K : is_lim gI_K p_infty 0.
Proof.
  apply (is_lim_le_le_loc (fun _ => 0) (fun u => 2 * gI_g u) gI_K p_infty 0).
  - exists 0. intros x _. apply gI_K_bounds.
  - apply is_lim_const.
  - evar_last. apply (is_lim_scal_l gI_g 2 p_infty 0). apply gI_lim_g.
    simpl. f_equal. ring.
Qed.

Lemma gI_lim_Jsq : is_lim (fun u => gI_J u * gI_J u) p_infty (PI / 2).
Proof.
  apply (is_lim_ext (fun u => PI / 2 - gI_K u)).
  - intros u. pose proof (gI_F_val u). lra.
  - evar_last.
    + apply (is_lim_minus' (fun _ => PI / 2) gI_K p_infty (PI / 2) 0).
      * apply is_lim_const.
      * apply gI_lim_K.
    + simpl. f_equal. ring.
Qed.

Lemma gI_lim_J : is_lim gI_J p_infty (sqrt (PI / 2)).
Proof.
  apply (is_lim_ext_loc (fun u => sqrt (gI_J u * gI_J u))).
  - exists 0. intros x Hx. apply sqrt_square. apply gI_J_nonneg. lra.
  - apply (is_lim_comp_continuous (fun u => gI_J u * gI_J u) sqrt p_infty (PI / 2)).
    + apply gI_lim_Jsq.
    + apply continuous_sqrt.
Qed.

Lemma gI_sqrt_val : sqrt (PI / 2) = sqrt (2 * PI) / 2.
Proof.
  pose proof PI_RGT_0 as Hpi.
  apply sqrt_lem_1.
  - lra.
  - pose proof (sqrt_pos (2 * PI)). lra.
  - replace (sqrt (2 * PI) / 2 * (sqrt (2 * PI) / 2))
      with (sqrt (2 * PI) * sqrt (2 * PI) / 4) by field.
    rewrite sqrt_sqrt by lra. field.
Qed.

Theorem gauss_integral :
  is_lim (fun x => RInt (fun t => exp (- (t * t) / 2)) 0 x) p_infty (sqrt (2 * PI) / 2).
Proof.
  rewrite <- gI_sqrt_val. exact gI_lim_J.
Qed.

Print Assumptions gauss_integral.

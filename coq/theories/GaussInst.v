(** * GaussInst: a concrete, hypothesis-free model of [GaussCDF].

    [PhiK x = 1/2 + (int_0^x exp(-t^2/2) dt) / (2 I)] with
    [I = lim_{x -> oo} int_0^x exp(-t^2/2) dt] is the standard normal
    distribution function (the only fact about it that is not proved here is
    the numeric value of its normalising constant, [2 * I = sqrt (2 * PI)],
    which the prediction theorems do not need).  [PhiinvK] is its inverse on
    (0, 1).  [GaussCDF_inst : GaussCDF PhiK PhiinvK] has no premise. *)
From Coq Require Import Reals Lra Lia.
From Coquelicot Require Import Coquelicot.
From OSV Require Import RInst.
Open Scope R_scope.

(** ** A derivative-sign lemma (mean value theorem) *)
Lemma derive_nonpos_le (f df : R -> R) (a b : R) :
  a <= b ->
  (forall x, a <= x <= b -> is_derive f x (df x)) ->
  (forall x, a <= x <= b -> df x <= 0) ->
  f b <= f a.
Proof.
  intros Hab Hd Hs.
  destruct (MVT_gen f a b df) as [c [Hc E]].
  - intros x Hx. apply Hd. rewrite Rmin_left, Rmax_right in Hx by lra. lra.
  - intros x Hx. rewrite Rmin_left, Rmax_right in Hx by lra.
    apply continuity_pt_filterlim. apply (@ex_derive_continuous R_AbsRing R_NormedModule f x).
    exists (df x). apply Hd. lra.
  - rewrite Rmin_left, Rmax_right in Hc by lra.
    assert (df c * (b - a) <= 0).
    { pose proof (Hs c Hc). nra. }
    lra.
Qed.

Lemma derive_nonneg_le (f df : R -> R) (a b : R) :
  a <= b ->
  (forall x, a <= x <= b -> is_derive f x (df x)) ->
  (forall x, a <= x <= b -> 0 <= df x) ->
  f a <= f b.
Proof.
  intros Hab Hd Hs.
  assert (- f b <= - f a); [|lra].
  apply (derive_nonpos_le (fun x => - f x) (fun x => - df x) a b Hab).
  - intros x Hx. apply (is_derive_opp f x (df x)). now apply Hd.
  - intros x Hx. pose proof (Hs x Hx). lra.
Qed.

(** ** The unnormalised density and its primitive *)
Definition g (t : R) : R := exp (- (t * t) / 2).

Lemma g_pos t : 0 < g t.
Proof. apply exp_pos. Qed.
Lemma g_even t : g (- t) = g t.
Proof. unfold g. f_equal. lra. Qed.
Lemma g_derive (t : R) : is_derive g t (- t * g t).
Proof. unfold g. auto_derive; [exact Logic.I | ]. unfold Rdiv. field. Qed.
Lemma g_continuous (t : R) : continuous g t.
Proof. apply (@ex_derive_continuous R_AbsRing R_NormedModule g t). exists (- t * g t). apply g_derive. Qed.
Lemma g_decr s t : 0 <= s <= t -> g t <= g s.
Proof.
  intros H. unfold g.
  destruct (Req_dec s t) as [->|Hne]; [lra|].
  left. apply exp_increasing. nra.
Qed.
Lemma g_abs_decr s t : Rabs s <= Rabs t -> g t <= g s.
Proof.
  intros H.
  assert (E : forall u, g u = g (Rabs u)).
  { intros u. unfold Rabs. destruct (Rcase_abs u); [now rewrite g_even|reflexivity]. }
  rewrite (E s), (E t). apply g_decr. split; [apply Rabs_pos|exact H].
Qed.
Lemma g_le_1 t : g t <= 1.
Proof.
  rewrite <- exp_0. unfold g.
  destruct (Req_dec t 0) as [->|Hne].
  - right. f_equal. lra.
  - left. apply exp_increasing. nra.
Qed.

Lemma ex_RInt_g a b : ex_RInt g a b.
Proof. apply (ex_RInt_continuous g). intros z _. apply g_continuous. Qed.

Definition G (x : R) : R := RInt g 0 x.

Lemma G_0 : G 0 = 0.
Proof. unfold G. apply (RInt_point 0 g). Qed.
Lemma G_diff (a b : R) : G b - G a = RInt g a b.
Proof.
  unfold G.
  pose proof (RInt_Chasles g 0 a b (ex_RInt_g 0 a) (ex_RInt_g a b)) as E.
  change (RInt g 0 a + RInt g a b = RInt g 0 b) in E. lra.
Qed.
Lemma G_derive (x : R) : is_derive G x (g x).
Proof.
  apply (is_derive_RInt g G 0 x).
  - apply filter_forall. intros b. apply (RInt_correct g 0 b). apply ex_RInt_g.
  - apply g_continuous.
Qed.
Lemma G_continuous (x : R) : continuous G x.
Proof. apply (@ex_derive_continuous R_AbsRing R_NormedModule G x). exists (g x). apply G_derive. Qed.
Lemma G_incr (x y : R) : x < y -> G x < G y.
Proof.
  intros H. assert (0 < G y - G x); [|lra].
  rewrite G_diff. apply RInt_gt_0; [exact H| |].
  - intros t _. apply g_pos.
  - intros t _. apply g_continuous.
Qed.
Lemma G_odd (x : R) : G (- x) = - G x.
Proof.
  assert (E : forall y, 0 <= y -> G (- y) + G y = 0).
  { intros y Hy.
    pose (K := fun u => G (- u) + G u).
    assert (D : forall u, is_derive K u 0).
    { intros u. unfold K.
      replace 0 with (plus ((-1) * g (- u)) (g u)) by (rewrite g_even; unfold plus; cbn; lra).
      apply (is_derive_plus (fun u => G (- u)) G).
      - apply (is_derive_comp G (fun u => - u) u (g (- u)) (-1)).
        + apply G_derive.
        + auto_derive; [exact Logic.I | ring].
      - apply G_derive. }
    assert (K0 : K 0 = 0) by (unfold K; rewrite Ropp_0, G_0; lra).
    pose proof (derive_nonpos_le K (fun _ => 0) 0 y Hy (fun u _ => D u) (fun _ _ => Rle_refl 0)).
    pose proof (derive_nonneg_le K (fun _ => 0) 0 y Hy (fun u _ => D u) (fun _ _ => Rle_refl 0)).
    unfold K in *. lra. }
  destruct (Rle_lt_dec 0 x) as [Hx|Hx].
  - pose proof (E x Hx). lra.
  - pose proof (E (- x) ltac:(lra)) as E'. rewrite Ropp_involutive in E'. lra.
Qed.

(** ** [G] is bounded; its limit [Iinf] at +oo *)
Definition Gbound : R := G 1 + 2 * exp (- / 2).

Lemma G_le_bound (x : R) : G x <= Gbound.
Proof.
  unfold Gbound. pose proof (exp_pos (- / 2)) as He.
  destruct (Rle_lt_dec x 1) as [Hx|Hx].
  - destruct Hx as [Hx| ->]; [pose proof (G_incr x 1 Hx)|]; lra.
  - pose (H := fun u : R => G u + 2 * exp (- u / 2)).
    assert (D : forall u : R, is_derive H u (g u - exp (- u / 2))).
    { intros u. unfold H.
      replace (g u - exp (- u / 2)) with (plus (g u) (2 * (- / 2 * exp (- u / 2))))
        by (unfold plus; cbn; field).
      apply (is_derive_plus G (fun u : R => 2 * exp (- u / 2))).
      - apply G_derive.
      - auto_derive; [exact Logic.I | unfold Rdiv; field]. }
    assert (L : H x <= H 1).
    { apply (derive_nonpos_le H (fun u => g u - exp (- u / 2)) 1 x); [lra| |].
      - intros u _. apply D.
      - intros u Hu. unfold g.
        destruct (Req_dec u 1) as [->|Hne].
        + right. replace (- (1 * 1) / 2) with (Ropp 1 / 2) by lra. lra.
        + left. apply Rlt_minus. apply exp_increasing. nra. }
    unfold H in L. pose proof (exp_pos (- x / 2)).
    replace (Ropp 1 / 2) with (- / 2) in L by lra. lra.
Qed.

Definition Grange (y : R) : Prop := exists x, y = G x.
Lemma Grange_bound : bound Grange.
Proof. exists Gbound. intros y [x ->]. apply G_le_bound. Qed.
Lemma Grange_inh : exists y, Grange y.
Proof. exists (G 0), 0. reflexivity. Qed.

Definition Iinf : R := proj1_sig (completeness Grange Grange_bound Grange_inh).
Lemma Iinf_lub : is_lub Grange Iinf.
Proof. unfold Iinf. destruct (completeness Grange Grange_bound Grange_inh) as [l Hl]. exact Hl. Qed.

Lemma G_lt_I (x : R) : G x < Iinf.
Proof.
  pose proof (G_incr x (x + 1) ltac:(lra)).
  assert (G (x + 1) <= Iinf) by (apply (proj1 Iinf_lub); now exists (x + 1)).
  lra.
Qed.
Lemma I_pos : 0 < Iinf.
Proof. pose proof (G_lt_I 0). rewrite G_0 in H. exact H. Qed.
Lemma G_gt_mI (x : R) : - Iinf < G x.
Proof. pose proof (G_lt_I (- x)) as H. rewrite G_odd in H. lra. Qed.
Lemma G_approaches (y : R) : y < Iinf -> exists x, y < G x.
Proof.
  intros Hy. destruct (Classical_Prop.classic (exists x, y < G x)) as [H|H]; [exact H|].
  exfalso. assert (Iinf <= y); [|lra].
  apply (proj2 Iinf_lub). intros z [x ->].
  destruct (Rle_lt_dec (G x) y) as [L|L]; [exact L|]. exfalso. apply H. now exists x.
Qed.

Lemma G_lim_p : is_lim G p_infty Iinf.
Proof.
  apply is_lim_spec. intros eps.
  destruct (G_approaches (Iinf - eps)) as [x0 Hx0]; [pose proof (cond_pos eps); lra|].
  exists x0. intros x Hx.
  pose proof (G_incr x0 x Hx). pose proof (G_lt_I x).
  apply Rabs_def1; lra.
Qed.
Lemma G_lim_m : is_lim G m_infty (- Iinf).
Proof.
  apply is_lim_spec. intros eps.
  destruct (G_approaches (Iinf - eps)) as [x0 Hx0]; [pose proof (cond_pos eps); lra|].
  exists (- x0). intros x Hx.
  pose proof (G_incr x0 (- x) ltac:(lra)) as H1. rewrite G_odd in H1. pose proof (G_gt_mI x).
  apply Rabs_def1; lra.
Qed.

(** ** The normalised distribution function *)
Definition PhiK (x : R) : R := / 2 + G x / (2 * Iinf).

Lemma PhiK_0 : PhiK 0 = / 2.
Proof. unfold PhiK. rewrite G_0. unfold Rdiv. lra. Qed.
Lemma PhiK_sym (x : R) : PhiK (- x) = 1 - PhiK x.
Proof. unfold PhiK. rewrite G_odd. pose proof I_pos. field. lra. Qed.
Lemma PhiK_mono (x y : R) : x < y -> PhiK x < PhiK y.
Proof.
  intros H. unfold PhiK. pose proof I_pos as HI. pose proof (G_incr x y H) as HG.
  apply Rplus_lt_compat_l. unfold Rdiv. apply Rmult_lt_compat_r; [|exact HG].
  apply Rinv_0_lt_compat. lra.
Qed.
Lemma PhiK_range (x : R) : 0 < PhiK x < 1.
Proof.
  unfold PhiK. pose proof I_pos as HI. pose proof (G_lt_I x) as H1. pose proof (G_gt_mI x) as H2.
  assert (E : / 2 = Iinf / (2 * Iinf)) by (field; lra).
  assert (P : 0 < / (2 * Iinf)) by (apply Rinv_0_lt_compat; lra).
  split.
  - replace 0 with (/ 2 + (- Iinf) / (2 * Iinf)) by (rewrite E; field; lra).
    apply Rplus_lt_compat_l. unfold Rdiv. now apply Rmult_lt_compat_r.
  - replace 1 with (/ 2 + Iinf / (2 * Iinf)) by (rewrite <- E; lra).
    apply Rplus_lt_compat_l. unfold Rdiv. now apply Rmult_lt_compat_r.
Qed.
Lemma PhiK_derive (x : R) : is_derive PhiK x (g x / (2 * Iinf)).
Proof.
  unfold PhiK.
  replace (g x / (2 * Iinf)) with (plus 0 (g x * / (2 * Iinf))) by (unfold plus; cbn; unfold Rdiv; ring).
  apply (is_derive_plus (fun _ : R => / 2) (fun x : R => G x / (2 * Iinf))).
  - apply (@is_derive_const R_AbsRing R_NormedModule (/ 2) x).
  - unfold Rdiv. apply (is_derive_scal_l G x (g x) (/ (2 * Iinf))). apply G_derive.
Qed.
Lemma PhiK_continuous (x : R) : continuous PhiK x.
Proof.
  apply (@ex_derive_continuous R_AbsRing R_NormedModule PhiK x).
  exists (g x / (2 * Iinf)). apply PhiK_derive.
Qed.
Lemma PhiK_continuity : continuity PhiK.
Proof. intros x. apply continuity_pt_filterlim. apply PhiK_continuous. Qed.

Lemma PhiK_lim_p : is_lim PhiK p_infty 1.
Proof.
  pose proof I_pos as HI.
  replace 1 with (/ 2 + Iinf * / (2 * Iinf)) by (field; lra).
  unfold PhiK.
  apply (is_lim_plus (fun _ => / 2) (fun x => G x / (2 * Iinf)) p_infty (/ 2) (Iinf * / (2 * Iinf))).
  - apply is_lim_const.
  - apply (is_lim_scal_r G (/ (2 * Iinf)) p_infty Iinf). apply G_lim_p.
  - reflexivity.
Qed.
Lemma PhiK_lim_m : is_lim PhiK m_infty 0.
Proof.
  pose proof I_pos as HI.
  replace 0 with (/ 2 + (- Iinf) * / (2 * Iinf)) by (field; lra).
  unfold PhiK.
  apply (is_lim_plus (fun _ => / 2) (fun x => G x / (2 * Iinf)) m_infty (/ 2) (- Iinf * / (2 * Iinf))).
  - apply is_lim_const.
  - apply (is_lim_scal_r G (/ (2 * Iinf)) m_infty (- Iinf)). apply G_lim_m.
  - reflexivity.
Qed.

(** ** The inverse on (0, 1) *)
Lemma PhiK_above (p : R) : p < 1 -> exists b, p < PhiK b.
Proof.
  intros Hp. pose proof I_pos as HI.
  destruct (G_approaches ((2 * p - 1) * Iinf)) as [b Hb]; [nra|].
  exists b. unfold PhiK.
  replace p with (/ 2 + ((2 * p - 1) * Iinf) / (2 * Iinf)) at 1 by (field; lra).
  apply Rplus_lt_compat_l. unfold Rdiv. apply Rmult_lt_compat_r; [|exact Hb].
  apply Rinv_0_lt_compat. lra.
Qed.
Lemma PhiK_below (p : R) : 0 < p -> exists a, PhiK a < p.
Proof.
  intros Hp. destruct (PhiK_above (1 - p)) as [b Hb]; [lra|].
  exists (- b). rewrite PhiK_sym. lra.
Qed.
Lemma PhiK_surj (p : R) : 0 < p < 1 -> exists z, PhiK z = p.
Proof.
  intros [H0 H1].
  destruct (PhiK_below p H0) as [a Ha]. destruct (PhiK_above p H1) as [b Hb].
  destruct (IVT_gen PhiK a b p PhiK_continuity) as [z [_ Hz]].
  - rewrite Rmin_left, Rmax_right by lra. lra.
  - now exists z.
Qed.

Definition PhiinvK (p : R) : R := real (Lub_Rbar (fun x => PhiK x <= p)).

Lemma PhiK_le_inv (x y : R) : PhiK x <= PhiK y -> x <= y.
Proof.
  intros H. destruct (Rle_lt_dec x y) as [L|L]; [exact L|].
  pose proof (PhiK_mono y x L). lra.
Qed.
Lemma PhiinvK_of_PhiK (z : R) : PhiinvK (PhiK z) = z.
Proof.
  unfold PhiinvK.
  rewrite (is_lub_Rbar_unique (fun x => PhiK x <= PhiK z) (Finite z)); [reflexivity|].
  split.
  - intros x Hx. cbn. now apply PhiK_le_inv.
  - intros b Hb. apply Hb. lra.
Qed.
Lemma PhiK_inv (p : R) : 0 < p < 1 -> PhiK (PhiinvK p) = p.
Proof. intros Hp. destruct (PhiK_surj p Hp) as [z <-]. now rewrite PhiinvK_of_PhiK. Qed.

(** ** Window mass is non-increasing in the distance of the centre from 0 *)
Lemma PhiK_shift_derive (k c : R) : is_derive (fun c : R => PhiK (c + k)) c (g (c + k) / (2 * Iinf)).
Proof.
  replace (g (c + k) / (2 * Iinf)) with (scal 1 (g (c + k) / (2 * Iinf)))
    by (unfold scal; cbn; unfold mult; cbn; ring).
  apply (is_derive_comp PhiK (fun c : R => c + k) c (g (c + k) / (2 * Iinf)) 1).
  - apply PhiK_derive.
  - auto_derive; [exact Logic.I | ring].
Qed.

Lemma PhiK_window_pos (a b h : R) : 0 <= h -> 0 <= a <= b ->
  PhiK (b + h) - PhiK (b - h) <= PhiK (a + h) - PhiK (a - h).
Proof.
  intros Hh [Ha Hab]. pose proof I_pos as HI.
  apply (derive_nonpos_le (fun c : R => PhiK (c + h) - PhiK (c + - h))
           (fun c : R => g (c + h) / (2 * Iinf) - g (c + - h) / (2 * Iinf)) a b Hab).
  - intros c _.
    apply (is_derive_minus (fun c : R => PhiK (c + h)) (fun c : R => PhiK (c + - h)) c
             (g (c + h) / (2 * Iinf)) (g (c + - h) / (2 * Iinf))); apply PhiK_shift_derive.
  - intros c Hc.
    assert (L : g (c + h) <= g (c + - h)).
    { apply g_abs_decr. rewrite (Rabs_right (c + h)) by lra. apply Rabs_le. lra. }
    assert (P : 0 < / (2 * Iinf)) by (apply Rinv_0_lt_compat; lra).
    unfold Rdiv. nra.
Qed.

Lemma PhiK_window_even (c h : R) : PhiK (- c + h) - PhiK (- c - h) = PhiK (c + h) - PhiK (c - h).
Proof.
  replace (- c + h) with (- (c - h)) by lra. replace (- c - h) with (- (c + h)) by lra.
  rewrite !PhiK_sym. lra.
Qed.
Lemma PhiK_window_abs (c h : R) : PhiK (c + h) - PhiK (c - h) = PhiK (Rabs c + h) - PhiK (Rabs c - h).
Proof.
  unfold Rabs. destruct (Rcase_abs c); [now rewrite PhiK_window_even|reflexivity].
Qed.
Lemma PhiK_window (a b h : R) : 0 <= h -> Rabs a <= Rabs b ->
  PhiK (b + h) - PhiK (b - h) <= PhiK (a + h) - PhiK (a - h).
Proof.
  intros Hh Hab. rewrite (PhiK_window_abs a h), (PhiK_window_abs b h).
  apply PhiK_window_pos; [exact Hh|]. split; [apply Rabs_pos|exact Hab].
Qed.

(** ** Star-shapedness (concavity on [0, oo) through the origin) *)
Lemma G_star (l x : R) : 0 <= l <= 1 -> 0 <= x -> l * G x <= G (l * x).
Proof.
  intros Hl Hx.
  pose (F := fun u : R => G (l * u) - l * G u).
  assert (L : F 0 <= F x).
  { apply (derive_nonneg_le F (fun u : R => l * g (l * u) - l * g u) 0 x Hx).
    - intros u _. unfold F.
      apply (is_derive_minus (fun u : R => G (l * u)) (fun u : R => l * G u) u (l * g (l * u)) (l * g u)).
      + apply (is_derive_comp G (fun u : R => l * u) u (g (l * u)) l).
        * apply G_derive.
        * auto_derive; [exact Logic.I | ring].
      + apply is_derive_scal. apply G_derive.
    - intros u Hu.
      assert (g u <= g (l * u)) by (apply g_decr; nra).
      nra. }
  unfold F in L. rewrite Rmult_0_r, G_0 in L. lra.
Qed.
Lemma PhiK_star (l x : R) : 0 <= l <= 1 -> 0 <= x -> l * (PhiK x - / 2) <= PhiK (l * x) - / 2.
Proof.
  intros Hl Hx. unfold PhiK. pose proof I_pos as HI. pose proof (G_star l x Hl Hx) as H.
  assert (P : 0 < / (2 * Iinf)) by (apply Rinv_0_lt_compat; lra).
  unfold Rdiv. nra.
Qed.

(** ** The instance *)
Theorem GaussCDF_inst : GaussCDF PhiK PhiinvK.
Proof.
  constructor.
  - exact PhiK_mono.
  - exact PhiK_sym.
  - exact PhiK_range.
  - exact PhiK_inv.
  - exact PhiK_window.
  - exact PhiK_star.
Qed.
Print Assumptions GaussCDF_inst.

(** * RInst: the model instantiated on Coq's real numbers.

    [RNum Phi Phiinv : Num R] interprets the abstract number operations of the
    model by the real functions.  The standard normal distribution function
    [Phi] and its inverse [Phiinv] are parameters (external code: CPython's
    [statistics.NormalDist] on top of glibc's [erfc]); the facts about them
    that the theorems use are collected in the record [GaussFacts], which
    every theorem that needs them takes as an explicit premise.  Nothing is
    declared as an axiom. *)
From Coq Require Import List ZArith Bool Reals Lra Lia Permutation.
From OSV Require Import Num Gauss.
Import ListNotations.
Open Scope R_scope.

Definition Rltb (x y : R) : bool := if Rlt_dec x y then true else false.
Definition Rleb (x y : R) : bool := if Rle_dec x y then true else false.
Definition Reqb (x y : R) : bool := if Req_EM_T x y then true else false.

Lemma Rltb_true x y : Rltb x y = true <-> x < y.
Proof. unfold Rltb. destruct (Rlt_dec x y); split; intros; try assumption; try reflexivity; try discriminate; contradiction. Qed.
Lemma Rltb_false x y : Rltb x y = false <-> y <= x.
Proof. unfold Rltb. destruct (Rlt_dec x y); split; intros; try discriminate; try reflexivity; lra. Qed.
Lemma Rleb_true x y : Rleb x y = true <-> x <= y.
Proof. unfold Rleb. destruct (Rle_dec x y); split; intros; try assumption; try reflexivity; try discriminate; contradiction. Qed.
Lemma Rleb_false x y : Rleb x y = false <-> y < x.
Proof. unfold Rleb. destruct (Rle_dec x y); split; intros; try discriminate; try reflexivity; lra. Qed.
Lemma Reqb_true x y : Reqb x y = true <-> x = y.
Proof. unfold Reqb. destruct (Req_EM_T x y); split; intros; try assumption; try reflexivity; try discriminate; contradiction. Qed.
Lemma Reqb_false x y : Reqb x y = false <-> x <> y.
Proof. unfold Reqb. destruct (Req_EM_T x y); split; intros; try discriminate; try reflexivity; try assumption; contradiction. Qed.

(** the standard normal density, concretely *)
Definition phi (x : R) : R := exp (- (x * x) / 2) / sqrt (2 * PI).

Section RInst.
Variables (Phi Phiinv : R -> R).

Definition RNum : Num R := {|
  fadd := Rplus; fsub := Rminus; fmul := Rmult; fdiv := Rdiv;
  fneg := Ropp; fabs := Rabs;
  fsqrt := sqrt; fexp := exp;
  ferfc := fun y => 2 * Phi (- (y * sqrt 2));     (* erfc y = 2 Phi(-y sqrt 2) *)
  fpow2 := fun x => x * x;
  ficdf := Phiinv;
  fltb := Rltb; fleb := Rleb; feqb := Reqb;
  ffinite := fun _ => true;
  fofZ := IZR;
  fofdy := fun m e => IZR m * powerRZ 2 e;
  ftau := 2 * PI |}.

(** The facts about the standard normal distribution function that the
    theorems rest on (all textbook facts: monotone, symmetric, a probability,
    inverse; Mills-ratio bounds; Sampford's inequality; mean and variance of a
    normal truncated to an interval; unimodality; concavity on [0, oo)). *)
Record GaussFacts : Prop := {
  gf_mono : forall x y, x < y -> Phi x < Phi y;
  gf_sym : forall x, Phi (- x) = 1 - Phi x;
  gf_range : forall x, 0 < Phi x < 1;
  gf_inv : forall p, 0 < p < 1 -> Phi (Phiinv p) = p;
  gf_mills : forall x, 0 < phi x + x * Phi x;
  gf_mills_up : forall x, x < 0 -> phi x * (- x) < (x * x + 1) * Phi x;
  gf_mills_low2 : forall x, x < 0 -> (- x * (x * x) + 3 * - x) * Phi x < phi x * (x * x + 2);
  gf_sampford : forall x, phi x * (phi x + x * Phi x) < Phi x * Phi x;
  gf_band : forall a b, a < b ->
      a * (Phi b - Phi a) <= phi a - phi b <= b * (Phi b - Phi a);
  gf_window_var : forall a b, a < b ->
      let D := Phi b - Phi a in
      0 <= 1 + (a * phi a - b * phi b) / D - ((phi a - phi b) / D) * ((phi a - phi b) / D)
        <= ((b - a) / 2) * ((b - a) / 2);
  gf_window : forall a b h, 0 <= h -> Rabs a <= Rabs b ->
      Phi (b + h) - Phi (b - h) <= Phi (a + h) - Phi (a - h);
  gf_star : forall l x, 0 <= l <= 1 -> 0 <= x -> l * (Phi x - / 2) <= Phi (l * x) - / 2;
  gf_tail8 : / 4503599627370496 < Phi (- 8)
}.

(** The part of [GaussFacts] that speaks about the distribution function alone (no density):
    all that the prediction theorems (C09-C12) need.  It is instantiated, without any
    hypothesis, in [GaussInst.v]. *)
Record GaussCDF : Prop := {
  gc_mono : forall x y, x < y -> Phi x < Phi y;
  gc_sym : forall x, Phi (- x) = 1 - Phi x;
  gc_range : forall x, 0 < Phi x < 1;
  gc_inv : forall p, 0 < p < 1 -> Phi (Phiinv p) = p;
  gc_window : forall a b h, 0 <= h -> Rabs a <= Rabs b ->
      Phi (b + h) - Phi (b - h) <= Phi (a + h) - Phi (a - h);
  gc_star : forall l x, 0 <= l <= 1 -> 0 <= x -> l * (Phi x - / 2) <= Phi (l * x) - / 2
}.
Lemma GaussFacts_CDF : GaussFacts -> GaussCDF.
Proof.
  intros G. constructor.
  - apply (gf_mono G). - apply (gf_sym G). - apply (gf_range G). - apply (gf_inv G).
  - apply (gf_window G). - apply (gf_star G).
Qed.
End RInst.

(** ** Elementary consequences and the reading of the model's constants. *)
Lemma sqrt2_pos : 0 < sqrt 2.
Proof. apply sqrt_lt_R0. lra. Qed.
Lemma sqrt2_sqr : sqrt 2 * sqrt 2 = 2.
Proof. apply sqrt_sqrt. lra. Qed.
Lemma sqrt_2PI_pos : 0 < sqrt (2 * PI).
Proof. apply sqrt_lt_R0. pose proof PI_RGT_0. lra. Qed.
Lemma phi_pos x : 0 < phi x.
Proof. unfold phi. apply Rdiv_lt_0_compat; [apply exp_pos | apply sqrt_2PI_pos]. Qed.
Lemma phi_even x : phi (- x) = phi x.
Proof. unfold phi. replace (- x * - x) with (x * x) by ring. reflexivity. Qed.

Section Consts.
Variables (Phi Phiinv : R -> R).
Local Instance RN : Num R := RNum Phi Phiinv.

Lemma R_fzero : (fzero : R) = 0. Proof. reflexivity. Qed.
Lemma R_fone : (fone : R) = 1. Proof. reflexivity. Qed.
Lemma R_ftwo : (ftwo : R) = 2. Proof. reflexivity. Qed.
Lemma R_fhalf : (fhalf : R) = / 2.
Proof. unfold fhalf; cbn. unfold powerRZ; cbn. change (Pos.to_nat 1) with 1%nat. simpl. field. Qed.
Lemma R_feps : (feps : R) = / 4503599627370496.
Proof.
  unfold feps; cbn -[pow]. rewrite Rmult_1_l. f_equal.
  rewrite pow_IZR. f_equal.
Qed.
Lemma R_feps_pos : 0 < (feps : R).
Proof. rewrite R_feps. apply Rinv_0_lt_compat. lra. Qed.
Lemma R_f1em5_pos : 0 < (f1em5 : R).
Proof.
  unfold f1em5; cbn -[pow]. apply Rmult_lt_0_compat; [apply IZR_lt; reflexivity|].
  apply Rinv_0_lt_compat. apply pow_lt. lra.
Qed.

(** [cdf] of the model is [Phi]; [pdf] of the model is [phi]. *)
Lemma R_cdf x : cdf x = Phi x.
Proof.
  unfold cdf. rewrite R_fhalf. cbn.
  replace (- (- x / sqrt 2 * sqrt 2)) with x.
  - lra.
  - pose proof sqrt2_pos. field. lra.
Qed.
Lemma R_pdf x : pdf x = phi x.
Proof.
  unfold pdf, phi. cbn. f_equal. f_equal. field.
Qed.
Lemma R_icdf p : icdf p = Phiinv p.
Proof. reflexivity. Qed.

Lemma R_fmax a b : fmax a b = Rmax a b.
Proof.
  unfold fmax; cbn. unfold Rltb, Rmax. destruct (Rlt_dec a b), (Rle_dec a b); try reflexivity; lra.
Qed.
Lemma R_fmin a b : fmin a b = Rmin a b.
Proof.
  unfold fmin; cbn. unfold Rltb, Rmin. destruct (Rlt_dec b a), (Rle_dec a b); try reflexivity; lra.
Qed.

(** sums: all three summation idioms of the code are the plain real sum *)
Fixpoint Rsum (l : list R) : R := match l with [] => 0 | x :: xs => x + Rsum xs end.

Lemma fold_left_Rplus_acc (l : list R) a : fold_left Rplus l a = a + Rsum l.
Proof. revert a; induction l as [|x xs IH]; intros a; cbn [fold_left Rsum]; [lra|]. rewrite IH. lra. Qed.
Lemma R_reduce_add l : reduce_add l = Rsum l.
Proof. destruct l as [|x xs]; cbn [reduce_add Rsum]; [reflexivity|]. cbn. apply fold_left_Rplus_acc. Qed.
Lemma R_neumaier l s c : fst (neumaier l s c) + snd (neumaier l s c) = s + c + Rsum l.
Proof.
  revert s c; induction l as [|x xs IH]; intros s c; cbn [neumaier Rsum fst snd]; [lra|].
  rewrite IH. cbn. destruct (Rleb (Rabs x) (Rabs s)); lra.
Qed.
Lemma R_py_sum l : py_sum l = Rsum l.
Proof.
  destruct l as [|x xs]; cbn [py_sum Rsum]; [reflexivity|].
  pose proof (R_neumaier xs (fadd fzero x) fzero) as E. cbn in E.
  cbn [ffinite RN RNum andb]. rewrite andb_true_r.
  destruct (negb _) eqn:Hz.
  - cbn. cbn in E. lra.
  - apply negb_false_iff in Hz. cbn in Hz. apply Reqb_true in Hz. cbn in E. cbn. lra.
Qed.
Lemma Rsum_app l l' : Rsum (l ++ l') = Rsum l + Rsum l'.
Proof. induction l as [|x xs IH]; cbn; [lra|]. rewrite IH. lra. Qed.
Lemma Rsum_perm l l' : Permutation l l' -> Rsum l = Rsum l'.
Proof. induction 1; cbn; lra. Qed.
Lemma Rsum_nonneg l : Forall (fun x => 0 <= x) l -> 0 <= Rsum l.
Proof. induction 1; cbn; lra. Qed.
Lemma Rsum_pos l : l <> [] -> Forall (fun x => 0 < x) l -> 0 < Rsum l.
Proof.
  intros Hne H. induction H as [|x xs Hx Hxs IH]; [congruence|]. cbn.
  destruct xs as [|y ys]; [cbn; lra|]. assert (0 < Rsum (y :: ys)) by (apply IH; congruence). lra.
Qed.
Lemma Rsum_map_ext {A} (f g : A -> R) l : (forall a, In a l -> f a = g a) -> Rsum (map f l) = Rsum (map g l).
Proof.
  induction l as [|a l IH]; intros H; cbn; [reflexivity|].
  rewrite (H a (or_introl eq_refl)), IH; [reflexivity|]. intros b Hb. apply H. now right.
Qed.
Lemma Rsum_map_scal {A} (f : A -> R) c l : Rsum (map (fun a => c * f a) l) = c * Rsum (map f l).
Proof. induction l as [|a l IH]; cbn; [lra|]. rewrite IH. lra. Qed.
Lemma Rsum_map_plus {A} (f g : A -> R) l : Rsum (map (fun a => f a + g a) l) = Rsum (map f l) + Rsum (map g l).
Proof. induction l as [|a l IH]; cbn; [lra|]. rewrite IH. lra. Qed.
End Consts.

(* driver.ml — runs the extracted Coq model (model.ml) on IEEE doubles.

   Trusted, hand-written glue:
   - the float dictionary [fnum] (the only place where the abstract number type
     of the model meets real arithmetic), raising [Arith] exactly where CPython
     raises ZeroDivisionError / OverflowError / "math domain error" /
     StatisticsError;
   - a port of CPython's AS241 inv_cdf (Modules/_statisticsmodule.c), operation
     for operation;
   - a line-oriented reader (one case per line, space-separated tokens, floats
     as C99 hex) and a JSON printer.
   No Extract Constant is used: the model is parametric in ['f num]. *)
open Model

exception Arith
exception Bad of string

(* ---------- conversions between OCaml ints / strings and extracted numbers ---------- *)
let rec pos_of_int n =
  if n = 1 then XH else if n land 1 = 0 then XO (pos_of_int (n lsr 1)) else XI (pos_of_int (n lsr 1))
let z_of_int n = if n = 0 then Z0 else if n > 0 then Zpos (pos_of_int n) else Zneg (pos_of_int (-n))
let rec nat_of_int n = if n <= 0 then O else S (nat_of_int (n - 1))
let rec int_of_nat = function O -> 0 | S n -> 1 + int_of_nat n
(* float value of an extracted Z (exact while it fits; rounds like int->float otherwise
   is NOT guaranteed, the harness only sends |z| < 2^53 where a Z becomes a float) *)
let rec float_of_pos = function
  | XH -> 1.0 | XO p -> 2.0 *. float_of_pos p | XI p -> 2.0 *. float_of_pos p +. 1.0
let float_of_z = function Z0 -> 0.0 | Zpos p -> float_of_pos p | Zneg p -> -. (float_of_pos p)
let rec int_of_pos = function XH -> 1 | XO p -> 2 * int_of_pos p | XI p -> 2 * int_of_pos p + 1
let int_of_z = function Z0 -> 0 | Zpos p -> int_of_pos p | Zneg p -> - (int_of_pos p)

(* big integers arrive as [-]hexdigits *)
let z_of_hex (s : string) : z =
  let neg = String.length s > 0 && s.[0] = '-' in
  let start = if neg then 1 else 0 in
  let acc = ref None in  (* positive so far, MSB first *)
  let push bit =
    match !acc with
    | None -> if bit then acc := Some XH
    | Some p -> acc := Some (if bit then XI p else XO p) in
  for i = start to String.length s - 1 do
    let c = s.[i] in
    let d = match c with
      | '0'..'9' -> Char.code c - 48 | 'a'..'f' -> Char.code c - 87
      | 'A'..'F' -> Char.code c - 55 | _ -> raise (Bad ("hex digit in " ^ s)) in
    push (d land 8 <> 0); push (d land 4 <> 0); push (d land 2 <> 0); push (d land 1 <> 0)
  done;
  match !acc with None -> Z0 | Some p -> if neg then Zneg p else Zpos p

(* ---------- AS241 inverse normal CDF, as in CPython ---------- *)
let inv_cdf (p : float) : float =
  if p <= 0.0 || p >= 1.0 then raise Arith;
  let q = p -. 0.5 in
  if Float.abs q <= 0.425 then begin
    let r = 0.180625 -. q *. q in
    let num = (((((((2.5090809287301226727e+3 *. r +.
                     3.3430575583588128105e+4) *. r +.
                     6.7265770927008700853e+4) *. r +.
                     4.5921953931549871457e+4) *. r +.
                     1.3731693765509461125e+4) *. r +.
                     1.9715909503065514427e+3) *. r +.
                     1.3314166789178437745e+2) *. r +.
                     3.3871328727963666080e+0) *. q in
    let den = (((((((5.2264952788528545610e+3 *. r +.
                     2.8729085735721942674e+4) *. r +.
                     3.9307895800092710610e+4) *. r +.
                     2.1213794301586595867e+4) *. r +.
                     5.3941960214247511077e+3) *. r +.
                     6.8718700749205790830e+2) *. r +.
                     4.2313330701600911252e+1) *. r +.
                     1.0) in
    let x = num /. den in
    0.0 +. (x *. 1.0)
  end else begin
    let r = if q <= 0.0 then p else 1.0 -. p in
    let r = sqrt (-. (log r)) in
    let num, den =
      if r <= 5.0 then begin
        let r = r -. 1.6 in
        (((((((7.74545014278341407640e-4 *. r +.
               2.27238449892691845833e-2) *. r +.
               2.41780725177450611770e-1) *. r +.
               1.27045825245236838258e+0) *. r +.
               3.64784832476320460504e+0) *. r +.
               5.76949722146069140550e+0) *. r +.
               4.63033784615654529590e+0) *. r +.
               1.42343711074968357734e+0),
        (((((((1.05075007164441684324e-9 *. r +.
               5.47593808499534494600e-4) *. r +.
               1.51986665636164571966e-2) *. r +.
               1.48103976427480074590e-1) *. r +.
               6.89767334985100004550e-1) *. r +.
               1.67638483018380384940e+0) *. r +.
               2.05319162663775882187e+0) *. r +.
               1.0)
      end else begin
        let r = r -. 5.0 in
        (((((((2.01033439929228813265e-7 *. r +.
               2.71155556874348757815e-5) *. r +.
               1.24266094738807843860e-3) *. r +.
               2.65321895265761230930e-2) *. r +.
               2.96560571828504891230e-1) *. r +.
               1.78482653991729133580e+0) *. r +.
               5.46378491116411436990e+0) *. r +.
               6.65790464350110377720e+0),
        (((((((2.04426310338993978564e-15 *. r +.
               1.42151175831644588870e-7) *. r +.
               1.84631831751005468180e-5) *. r +.
               7.86869131145613259100e-4) *. r +.
               1.48753612908506148525e-2) *. r +.
               1.36929880922735805310e-1) *. r +.
               5.99832206555887937690e-1) *. r +.
               1.0)
      end in
    let x = num /. den in
    let x = if q < 0.0 then -. x else x in
    0.0 +. (x *. 1.0)
  end

(* ---------- optional log of the libm calls (driver --libm): lets the harness re-evaluate a whole rate / predict call
   inside Coq on Flocq's binary64 with the libm functions given as the finite tables observed here ---------- *)
let libm_log : Buffer.t option ref = ref None
let logcall (tag : string) (x : float) (r : float) : float =
  (match !libm_log with
   | None -> ()
   | Some b -> Buffer.add_string b (Printf.sprintf "[\"%s\",\"%Lx\",\"%Lx\"]," tag (Int64.bits_of_float x) (Int64.bits_of_float r)));
  r

(* ---------- the float dictionary ---------- *)
let fnum : float num = {
  fadd = ( +. ); fsub = ( -. ); fmul = ( *. );
  fdiv = (fun a b -> if b = 0.0 then raise Arith else a /. b);
  fneg = (fun x -> -. x); fabs = Float.abs;
  fsqrt = (fun x -> if x < 0.0 then raise Arith else sqrt x);
  fexp = (fun x -> let r = exp x in
                   if Float.is_integer x || true then
                     (if r = Float.infinity && Float.abs x <> Float.infinity then raise Arith else logcall "e" x r)
                   else r);
  ferfc = (fun x -> logcall "c" x (Float.erfc x));
  fpow2 = (fun x -> let r = x ** 2.0 in
                    if r = Float.infinity && Float.abs x <> Float.infinity then raise Arith else logcall "p" x r);
  ficdf = (fun x -> logcall "i" x (inv_cdf x));
  fltb = (fun a b -> a < b); fleb = (fun a b -> a <= b); feqb = (fun a b -> a = b);
  ffinite = Float.is_finite;
  fofZ = float_of_z;
  fofdy = (fun m e -> Float.ldexp (float_of_z m) (int_of_z e));
  ftau = 6.283185307179586;
}

(* ---------- gamma callbacks (same family as harness/osv/impl.py) ---------- *)
let gamma_of_tag (tag : string) : float gamma_fn =
  let n = String.length tag in
  if tag = "gd" then (fun c _ _ ss _ _ -> fnum.fdiv (fnum.fsqrt ss) c)
  else if n > 3 && String.sub tag 0 3 = "gc:" then
    let x = float_of_string (String.sub tag 3 (n - 3)) in (fun _ _ _ _ _ _ -> x)
  else if tag = "gk" then (fun _ k _ _ _ _ -> fnum.fdiv 1.0 (float_of_int (int_of_nat k)))
  else if tag = "gr" then (fun _ _ _ _ _ r -> fnum.fdiv 1.0 (float_of_int (int_of_nat r + 1)))
  else if tag = "gt" then
    (fun _ k _ _ team _ -> fnum.fdiv (float_of_int (List.length team)) (float_of_int (int_of_nat k)))
  else if tag = "gm" then
    (* uses the team mean: |mu| / (|mu| + c) *)
    (fun c _ mu _ _ _ -> fnum.fdiv (Float.abs mu) (Float.abs mu +. c))
  else if tag = "gp" then
    (* uses the members it is handed: mean of their sigma over c *)
    (fun c _ _ _ team _ ->
       fnum.fdiv (List.fold_left (fun acc (r : float rating) -> acc +. r.r_sigma) 0.0 team)
         (c *. float_of_int (List.length team)))
  else raise (Bad ("gamma tag " ^ tag))

(* ---------- token reader ---------- *)
let toks : string list ref = ref []
let next () = match !toks with [] -> raise (Bad "eof") | t :: r -> toks := r; t
let fl s = float_of_string s
let kind_of = function
  | "PL" -> PL | "BTF" -> BTF | "BTP" -> BTP | "TMF" -> TMF | "TMP" -> TMP
  | s -> raise (Bad ("kind " ^ s))
let name_of (s : string) : name =
  if s = "n" then NmNone
  else match String.split_on_char ':' s with
    | ["s0"; t] -> NmStr (false, z_of_int (int_of_string t))
    | ["s1"; t] -> NmStr (true, z_of_int (int_of_string t))
    | _ -> raise (Bad ("name " ^ s))
let name_str = function
  | NmNone -> "null"
  | NmStr (b, t) -> Printf.sprintf "\"%s:%d\"" (if b then "s1" else "s0") (int_of_z t)

let rec read_val () : float pyval =
  let t = next () in
  let n = String.length t in
  let rest = String.sub t 1 (n - 1) in
  match t.[0] with
  | 'N' -> PNone
  | 'B' -> PBool (rest = "1")
  | 'I' -> PInt (z_of_hex rest)
  | 'F' -> (match String.split_on_char ':' rest with
            | [h; num; k] -> PFloat (fl h, z_of_hex num, z_of_int (int_of_string k))
            | _ -> raise (Bad ("float " ^ t)))
  | 'S' -> PStr (rest = "1")
  | 'O' -> POther (rest = "1")
  | 'L' -> let k = int_of_string rest in PList (List.init k (fun _ -> ()) |> List.map (fun () -> read_val ()))
  | 'T' -> let k = int_of_string rest in PTuple (List.init k (fun _ -> ()) |> List.map (fun () -> read_val ()))
  | 'R' -> let kd = kind_of rest in
           let mu = fl (next ()) in let sg = fl (next ()) in
           let id = z_of_int (int_of_string (next ())) in
           let nm = name_of (next ()) in
           PRating (kd, { r_mu = mu; r_sigma = sg; r_id = id; r_name = nm })
  | _ -> raise (Bad ("value " ^ t))

let read_state () : float mstate =
  let mu = fl (next ()) in let sigma = fl (next ()) in let beta = fl (next ()) in
  let kappa = fl (next ()) in let tau = fl (next ()) in
  let g = gamma_of_tag (next ()) in let lim = (next () = "1") in
  { m_mu = mu; m_sigma = sigma; m_beta = beta; m_kappa = kappa; m_tau = tau; m_gamma = g; m_limit = lim }

(* ---------- JSON printing ---------- *)
let h x = Printf.sprintf "\"%h\"" x
let jlist f l = "[" ^ String.concat "," (List.map f l) ^ "]"
let attr_s = function AMu -> "mu" | ASigma -> "sigma" | ABeta -> "beta" | AKappa -> "kappa" | ATau -> "tau"
let exn_s = function TypeError -> "TypeError" | ValueError -> "ValueError"
let rating_s (r : float rating) =
  Printf.sprintf "[%s,%s,%d,%s]" (h r.r_mu) (h r.r_sigma) (int_of_z r.r_id) (name_str r.r_name)
let events_s (evs : float event list) =
  let rd = List.filter_map (function
      | ERdF a -> Some (Printf.sprintf "\"%s\"" (attr_s a))
      | ERdLimit -> Some "\"limit_sigma\"" | ERdGamma -> Some "\"gamma\"" | _ -> None) evs in
  let wr = List.filter_map (function
      | EWrF (a, x) -> Some (Printf.sprintf "[\"%s\",%s]" (attr_s a) (h x))
      | EWrLimit b -> Some (Printf.sprintf "[\"limit_sigma\",%b]" b) | _ -> None) evs in
  let mut = List.filter_map (function
      | EMutMu (i, j, x) -> Some (Printf.sprintf "[%d,%d,\"mu\",%s]" (int_of_nat i) (int_of_nat j) (h x))
      | EMutSigma (i, j, x) -> Some (Printf.sprintf "[%d,%d,\"sigma\",%s]" (int_of_nat i) (int_of_nat j) (h x))
      | _ -> None) evs in
  Printf.sprintf "\"rd\":[%s],\"wr\":[%s],\"mut\":[%s]"
    (String.concat "," rd) (String.concat "," wr) (String.concat "," mut)
let state_s (st : float mstate) =
  Printf.sprintf "[%s,%s,%s,%s,%s,%b]" (h st.m_mu) (h st.m_sigma) (h st.m_beta) (h st.m_kappa) (h st.m_tau) st.m_limit

let out_prog (type a) (r : (float event list * float mstate) * a res) (pr : a -> string) =
  let ((evs, st), o) = r in
  match o with
  | Ok a -> Printf.sprintf "{\"exc\":null,\"res\":%s,%s,\"st\":%s}" (pr a) (events_s evs) (state_s st)
  | Raise e -> Printf.sprintf "{\"exc\":\"%s\",%s,\"st\":%s}" (exn_s e) (events_s evs) (state_s st)

let op_of = function
  | "lt" -> OpLt | "le" -> OpLe | "gt" -> OpGt | "ge" -> OpGe | "eq" -> OpEq | "ne" -> OpNe
  | s -> raise (Bad ("op " ^ s))

let key_of_val (v : float pyval) : key =
  match as_key v with Ok k -> k | Raise _ -> raise (Bad "key")

let handle (line : string) : string =
  toks := List.filter (fun s -> s <> "") (String.split_on_char ' ' line);
  let op = next () in
  match op with
  | "rate" ->
      let k = kind_of (next ()) in let st = read_state () in
      let teams = read_val () in let ranks = read_val () in let scores = read_val () in
      let tau = read_val () in let lim = read_val () in
      out_prog (run (rate_prog fnum k teams ranks scores tau lim) st) (jlist (jlist rating_s))
  | "pwin" ->
      let k = kind_of (next ()) in let st = read_state () in let teams = read_val () in
      out_prog (run (predict_win_prog fnum k teams) st) (jlist h)
  | "pdraw" ->
      let k = kind_of (next ()) in let st = read_state () in let teams = read_val () in
      out_prog (run (predict_draw_prog fnum k teams) st) h
  | "prank" ->
      let k = kind_of (next ()) in let st = read_state () in let teams = read_val () in
      out_prog (run (predict_rank_prog fnum k teams) st)
        (jlist (fun (r, p) -> Printf.sprintf "[%d,%s]" (int_of_nat r) (h p)))
  | "gauss" ->
      let f = next () in let x = fl (next ()) in
      let r = (match f with
          | "cdf" -> cdf fnum x | "pdf" -> pdf fnum x | "icdf" -> icdf fnum x
          | "v" -> let t = fl (next ()) in v fnum x t
          | "w" -> let t = fl (next ()) in w fnum x t
          | "vt" -> let t = fl (next ()) in vt fnum x t
          | "wt" -> let t = fl (next ()) in wt fnum x t
          | _ -> raise (Bad f)) in
      Printf.sprintf "{\"exc\":null,\"res\":%s}" (h r)
  | "crt" ->
      let k = kind_of (next ()) in let v = read_val () in let nm = name_of (next ()) in
      (match create_rating fnum k v nm (z_of_int 777) with
       | Ok r -> Printf.sprintf "{\"exc\":null,\"res\":%s}" (rating_s r)
       | Raise e -> Printf.sprintf "{\"exc\":\"%s\"}" (exn_s e))
  | "mrating" ->
      let st = read_state () in
      let ov () = (match read_val () with PNone -> None | v ->
          (match as_float fnum v with Ok x -> Some x | Raise _ -> raise (Bad "mrating"))) in
      let mu = ov () in let sg = ov () in let nm = name_of (next ()) in
      Printf.sprintf "{\"exc\":null,\"res\":%s}" (rating_s (model_rating st mu sg nm (z_of_int 777)))
  | "dcopy" ->
      (match read_val () with
       | PRating (_, r) -> Printf.sprintf "{\"exc\":null,\"res\":%s}" (rating_s (deepcopy r (z_of_int 777)))
       | _ -> raise (Bad "dcopy"))
  | "cmp" ->
      let o = op_of (next ()) in
      (match read_val () with
       | PRating (k, a) ->
           let other = read_val () in
           (match rating_compare fnum o k a other with
            | Ok b -> Printf.sprintf "{\"exc\":null,\"res\":%b}" b
            | Raise e -> Printf.sprintf "{\"exc\":\"%s\"}" (exn_s e))
       | _ -> raise (Bad "cmp"))
  | "ordinal" ->
      (match read_val () with
       | PRating (_, a) -> let z = fl (next ()) in
           Printf.sprintf "{\"exc\":null,\"res\":%s}" (h (ordinal fnum a z))
       | _ -> raise (Bad "ordinal"))
  | "rankdata" ->
      let n = int_of_string (next ()) in
      let l = List.init n (fun _ -> ()) |> List.map (fun () -> fl (next ())) in
      Printf.sprintf "{\"exc\":null,\"res\":%s}"
        (jlist (fun r -> string_of_int (int_of_nat r)) (rank_data fnum.fltb fnum.feqb l))
  | "argsort" ->
      let n = int_of_string (next ()) in
      let l = List.init n (fun _ -> ()) |> List.map (fun () -> fl (next ())) in
      Printf.sprintf "{\"exc\":null,\"res\":%s}"
        (jlist (fun r -> string_of_int (int_of_nat r)) (arg_sort fnum.fltb fnum.feqb l))
  | "unwind" ->
      (match read_val () with
       | PList ks ->
           let keys = List.map key_of_val ks in
           let objs = List.mapi (fun i _ -> i) keys in
           let (o, t) = unwind key_leb keys objs in
           Printf.sprintf "{\"exc\":null,\"res\":[%s,%s]}" (jlist string_of_int o)
             (jlist (fun r -> string_of_int (int_of_nat r)) t)
       | _ -> raise (Bad "unwind"))
  | "calcrank" ->
      (match read_val () with
       | PList ks ->
           let keys = List.map key_of_val ks in
           Printf.sprintf "{\"exc\":null,\"res\":%s}"
             (jlist (fun r -> string_of_int (int_of_nat r)) (calc_rankings key_ltb keys))
       | _ -> raise (Bad "calcrank"))
  | "ladder" ->
      let n = int_of_string (next ()) in
      let l = List.init n (fun i -> i) in
      Printf.sprintf "{\"exc\":null,\"res\":%s}" (jlist (jlist string_of_int) (ladder_pairs l))
  | "minit" ->
      let ov () = (match next () with "N" -> None | t -> Some (fl t)) in
      let mu = ov () in let sg = ov () in let beta = ov () in let kappa = ov () in let tau = ov () in
      let g = (match next () with "N" -> None | t -> Some (gamma_of_tag t)) in
      let lim = (match next () with "N" -> None | t -> Some (t = "1")) in
      Printf.sprintf "{\"exc\":null,\"res\":%s}" (state_s (model_init fnum mu sg beta kappa tau g lim))
  | "helpers" ->
      let beta = fl (next ()) in
      let teams = (match read_val () with
          | PList ts -> List.map (function
              | PList ps -> List.map (function PRating (_, r) -> r | _ -> raise (Bad "helpers player")) ps
              | _ -> raise (Bad "helpers team")) ts
          | _ -> raise (Bad "helpers teams")) in
      let ranks = (match read_val () with
          | PNone -> None | PList ks -> Some (List.map key_of_val ks) | _ -> raise (Bad "helpers ranks")) in
      let trs = calculate_team_ratings fnum teams ranks in
      let c = helper_c fnum beta trs in
      Printf.sprintf "{\"exc\":null,\"res\":{\"tr\":%s,\"c\":%s,\"sum_q\":%s,\"a\":%s}}"
        (jlist (fun t -> Printf.sprintf "[%s,%s,%d]" (h t.t_mu) (h t.t_ss) (int_of_nat t.t_rank)) trs)
        (h c) (jlist h (helper_sum_q fnum trs c))
        (jlist (fun a -> string_of_int (int_of_nat a)) (helper_a trs))
  | "pysum" ->
      let n = int_of_string (next ()) in
      let l = List.init n (fun _ -> ()) |> List.map (fun () -> fl (next ())) in
      Printf.sprintf "{\"exc\":null,\"res\":%s}" (h (py_sum fnum l))
  | s -> raise (Bad ("op " ^ s))

let () =
  let want_libm = Array.length Sys.argv > 1 && Sys.argv.(1) = "--libm" in
  try
    while true do
      let line = input_line stdin in
      if want_libm then libm_log := Some (Buffer.create 256);
      let out =
        try handle line with
        | Arith -> "{\"exc\":\"Arith\"}"
        | Stack_overflow -> "{\"exc\":\"DriverStackOverflow\"}"
        | Bad m -> Printf.sprintf "{\"exc\":\"DriverBad\",\"msg\":\"%s\"}" (String.escaped m) in
      let out = (match !libm_log with
          | Some b when String.length out > 0 && out.[String.length out - 1] = '}' ->
              let l = Buffer.contents b in
              let l = if l = "" then "" else String.sub l 0 (String.length l - 1) in
              String.sub out 0 (String.length out - 1) ^ ",\"libm\":[" ^ l ^ "]}"
          | _ -> out) in
      print_string out; print_char '\n'
    done
  with End_of_file -> ()
